package pot

// Bounded stand-in for property C16 (and the pot half of C01), run against the real code through
// `go test -overlay` by /verif/bin/check. It enumerates EVERY vector of contributions in [0, maxAmount] and fold
// flags for n <= maxPlayers players and EVERY insertion order, builds the level list with the real AddContributor
// and checks the published pots against an independent oracle written from the property statement.
// It is a bounded check (labelled as such in the evidence), not a proof.

import (
	"encoding/json"
	"fmt"
	"os"
	"sort"
	"strconv"
	"testing"
)

type c16case struct {
	Wagers []int64 `json:"wagers"`
	Folds  []bool  `json:"folds"`
	Order  []int   `json:"order"`
}

// seat numbers used for the players: identity, or (VERIF_C16_SEATS=sparse) seats spread over a large table - the code
// under test is given the seat numbers, the oracle below keeps talking about player i
var c16seats = []int{0, 3, 8, 9, 17, 30}

func c16oracle(c c16case) string {
	if msg := c16oracle1(c, false); msg != "" {
		return msg
	}
	if msg := c16oracle1(c, true); msg != "" {
		return "with the players on seats 0, 3, 8, 9, 17: " + msg
	}
	return ""
}

func c16oracle1(c c16case, sparse bool) string {
	seat := func(i int) int {
		if sparse {
			return c16seats[i]
		}
		return i
	}
	ll := NewLevelList()
	for _, i := range c.Order {
		ll.AddContributor(c.Wagers[i], seat(i), c.Folds[i])
	}
	pots := ll.GetPots()
	if sparse {
		// translate the published seat numbers back to player numbers
		back := map[int]int{}
		for i := range c.Wagers {
			back[seat(i)] = i
		}
		for _, p := range pots {
			if p == nil {
				continue
			}
			m := map[int]int64{}
			for k, v := range p.Contributors {
				if i, ok := back[k]; ok {
					m[i] = v
				} else {
					m[-1-k] = v
				}
			}
			p.Contributors = m
		}
	}
	var sumW int64
	for _, w := range c.Wagers {
		sumW += w
	}
	min := func(a, b int64) int64 {
		if a < b {
			return a
		}
		return b
	}
	prev := int64(0)
	var sumT int64
	prevElig := -1
	for j, p := range pots {
		if p == nil {
			return fmt.Sprintf("pot %d is nil", j)
		}
		if j > 0 && p.Level <= pots[j-1].Level {
			return fmt.Sprintf("levels not strictly increasing: pot %d level %d after %d", j, p.Level, pots[j-1].Level)
		}
		var want int64
		for _, w := range c.Wagers {
			want += min(w, p.Level) - min(w, prev)
		}
		if p.Total != want {
			return fmt.Sprintf("pot %d (level %d): total %d, players put in %d between level %d and %d", j, p.Level, p.Total, want, prev, p.Level)
		}
		// eligible players: the non-folded keys
		elig := 0
		for i := range c.Wagers {
			should := !c.Folds[i] && c.Wagers[i] >= p.Level
			amt, listed := p.Contributors[i]
			isElig := listed && !c.Folds[i]
			if should != isElig {
				return fmt.Sprintf("pot %d (level %d): player %d eligible=%v but should be %v", j, p.Level, i, isElig, should)
			}
			if isElig {
				elig++
				if amt != p.Level-prev {
					return fmt.Sprintf("pot %d (level %d): eligible player %d listed with %d, per-pot amount is %d", j, p.Level, i, amt, p.Level-prev)
				}
			}
		}
		for k := range p.Contributors {
			if k < 0 || k >= len(c.Wagers) {
				return fmt.Sprintf("pot %d lists unknown player %d", j, k)
			}
		}
		if prevElig >= 0 && elig >= prevElig {
			return fmt.Sprintf("pot %d: eligible set (%d) does not shrink (previous pot %d)", j, elig, prevElig)
		}
		prevElig = elig
		sumT += p.Total
		prev = p.Level
	}
	if sumT != sumW {
		return fmt.Sprintf("pot totals add up to %d, players put in %d", sumT, sumW)
	}
	return ""
}

func permutations(n int) [][]int {
	if n == 0 {
		return [][]int{{}}
	}
	var out [][]int
	for _, p := range permutations(n - 1) {
		for pos := 0; pos <= len(p); pos++ {
			q := append(append(append([]int{}, p[:pos]...), n-1), p[pos:]...)
			out = append(out, q)
		}
	}
	return out
}

func envInt(name string, def int) int {
	if v, err := strconv.Atoi(os.Getenv(name)); err == nil {
		return v
	}
	return def
}

func TestVerifC16Bounded(t *testing.T) {
	maxPlayers := envInt("VERIF_C16_PLAYERS", 4)
	maxAmount := int64(envInt("VERIF_C16_AMOUNT", 3))
	cases, nontrivial := 0, 0
	distinct := map[string]bool{}
	var samples []c16case
	var failure *c16case
	failMsg := ""
	for n := 1; n <= maxPlayers && failure == nil; n++ {
		perms := permutations(n)
		w := make([]int64, n)
		f := make([]bool, n)
		var rec func(i int)
		rec = func(i int) {
			if failure != nil {
				return
			}
			if i == n {
				for _, p := range perms {
					c := c16case{append([]int64{}, w...), append([]bool{}, f...), p}
					cases++
					key := fmt.Sprint(c.Wagers, c.Folds)
					if !distinct[key] {
						distinct[key] = true
						lv := map[int64]bool{}
						for _, x := range w {
							lv[x] = true
						}
						if len(lv) >= 2 {
							nontrivial++
							if len(samples) < 3 && n >= 3 {
								samples = append(samples, c)
							}
						}
					}
					if msg := c16oracle(c); msg != "" {
						failure, failMsg = &c, msg
						return
					}
				}
				return
			}
			for a := int64(0); a <= maxAmount; a++ {
				for _, fl := range []bool{false, true} {
					w[i], f[i] = a, fl
					rec(i + 1)
				}
			}
		}
		rec(0)
	}
	sort.Slice(samples, func(i, j int) bool { return len(samples[i].Wagers) < len(samples[j].Wagers) })
	rep := map[string]interface{}{"property": "C16", "cases": cases, "distinct_nontrivial": nontrivial, "max_players": maxPlayers, "max_amount": maxAmount, "samples": samples}
	if failure != nil {
		rep["failure"] = failure
		rep["message"] = failMsg
	}
	b, _ := json.Marshal(rep)
	fmt.Println("VERIF-REPORT " + string(b))
	if failure != nil {
		t.Fatalf("C16 violated: %s on %+v", failMsg, *failure)
	}
}

// replay of a single recorded case: VERIF_REPLAY=<file with a c16case>
func TestVerifC16Replay(t *testing.T) {
	path := os.Getenv("VERIF_REPLAY")
	if path == "" {
		t.Skip("no VERIF_REPLAY")
	}
	b, err := os.ReadFile(path)
	if err != nil {
		t.Fatal(err)
	}
	var c c16case
	if err := json.Unmarshal(b, &c); err != nil {
		t.Fatal(err)
	}
	if msg := c16oracle(c); msg != "" {
		t.Fatalf("C16 violated: %s", msg)
	}
}
