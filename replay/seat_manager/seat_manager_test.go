package seat_manager

// Stand-in for the repository's seat_manager_test.go, which does not compile at the pinned commit (it calls a method
// that no longer exists) and would keep `go test` from building this package. It is only ever used through
// `go test -overlay` by /verif/bin/check; nothing is written to /repo.
