package seat_manager

// Bounded cross-check for the seat manager properties C08, C17 and C18, run against the real code through
// `go test -overlay` by /verif/bin/check: every sequence of Join / Join(any) / Seat / Reserve / Leave / Next up to a
// depth bound on tables of 3..5 seats (deduplicated on the observable state) with oracles written from the property
// statements. Bounded check, not a proof: it complements the per-operation contracts with histories.

import (
	"encoding/json"
	"fmt"
	"os"
	"strconv"
	"strings"
	"testing"
)

type smop struct {
	Kind string `json:"op"`
	Seat int    `json:"seat"`
}

func (o smop) String() string { return fmt.Sprintf("%s(%d)", o.Kind, o.Seat) }

type smfail struct {
	Known    string `json:"known,omitempty"` // id of the recorded finding whose failure pattern this is
	Property string `json:"property"`
	Check    string `json:"check"`
	Msg      string `json:"message"`
	Max      int    `json:"max"`
	Path     []smop `json:"path"`
}

// the harness' own record of the history (what an observer of the API knows)
type smshadow struct {
	occupied   map[int]bool
	joins      int
	leaves     int
	lastDealer int // seat id of the most recent dealer, -1 before the first hand
}

func smPlayable(s *Seat) bool { return s != nil && s.Player != nil && s.IsActive && !s.IsReserved }

func smKey(sm *SeatManager) string {
	var sb strings.Builder
	for i := 0; i < sm.max; i++ {
		s := sm.seats[i]
		fmt.Fprintf(&sb, "%v%v%v|", s.Player != nil, s.IsActive, s.IsReserved)
	}
	id := func(s *Seat) int {
		if s == nil {
			return -1
		}
		return s.ID
	}
	fmt.Fprintf(&sb, "%d,%d,%d", id(sm.dealer), id(sm.sb), id(sm.bb))
	return sb.String()
}

// applies one operation with the oracles of the three properties; returns a failure or nil
func smStep(sm *SeatManager, sh *smshadow, o smop, prop string) (f *smfail, accepted bool) {
	fail := func(p, check, format string, a ...interface{}) {
		if f == nil && (prop == "" || prop == p) {
			f = &smfail{Property: p, Check: check, Msg: fmt.Sprintf(format, a...)}
		}
	}
	defer func() {
		if r := recover(); r != nil {
			fail("C18", "panic", "%s panics: %v", o, r)
			if prop == "C17" && o.Kind == "next" {
				f = &smfail{Property: "C17", Check: "panic", Msg: fmt.Sprintf("%s panics: %v", o, r)}
			}
		}
	}()
	n := sm.max
	occBefore := 0
	var playable, waiting []int
	for i := 0; i < n; i++ {
		if sm.seats[i].Player != nil {
			occBefore++
		}
		if smPlayable(sm.seats[i]) {
			playable = append(playable, i)
		} else if sm.seats[i].Player != nil && !sm.seats[i].IsReserved && !sm.seats[i].IsActive {
			waiting = append(waiting, i) // sat in on a seat that is switched off (late joiner)
		}
	}
	switch o.Kind {
	case "join":
		wasOcc := o.Seat >= 0 && o.Seat < n && sm.seats[o.Seat].Player != nil
		id, err := sm.Join(o.Seat, fmt.Sprintf("p%d", sh.joins))
		switch {
		case o.Seat >= n || o.Seat < -1:
			if err == nil {
				fail("C18", "join-out-of-range", "%s is accepted", o)
			}
		case o.Seat >= 0 && wasOcc:
			if err == nil {
				fail("C18", "join-occupied", "%s: the seat holds a player and the join is accepted", o)
			}
		case o.Seat >= 0:
			if err != nil || id != o.Seat {
				fail("C18", "join-free", "%s on a free seat returns (%d, %v)", o, id, err)
			}
		}
		if err == nil {
			if id < 0 || id >= n || sh.occupied[id] {
				fail("C18", "join-any", "%s lands on seat %d which was not empty", o, id)
			} else {
				sh.occupied[id] = true
				sh.joins++
				accepted = true
				if smPlayable(sm.seats[id]) {
					fail("C18", "join-plays-at-once", "the player who joined seat %d can play before sitting in", id)
				}
			}
		} else if o.Seat == -1 {
			if err != ErrNoAvailableSeat {
				fail("C18", "join-any-error", "%s returns %v", o, err)
			}
			for i := 0; i < n; i++ {
				if sm.seats[i].Player == nil && !sm.seats[i].IsReserved {
					fail("C18", "join-any-refused", "%s reports no seat although seat %d is empty and not reserved", o, i)
				}
			}
		}
	case "seat":
		if err := sm.Seat(o.Seat); err == nil {
			accepted = true
		}
	case "reserve":
		if err := sm.Reserve(o.Seat); err == nil {
			accepted = true
		}
	case "leave":
		was := o.Seat >= 0 && o.Seat < n && sm.seats[o.Seat].Player != nil
		err := sm.Leave(o.Seat)
		if was != (err == nil) {
			fail("C18", "leave", "%s: seat occupied %v, error %v", o, was, err)
		}
		if err == nil {
			delete(sh.occupied, o.Seat)
			sh.leaves++
			accepted = true
			if sm.seats[o.Seat].Player != nil {
				fail("C18", "leave-frees", "%s leaves the seat occupied", o)
			}
		}
	case "next":
		err := sm.Next()
		if err != nil && err != ErrInsufficientNumberOfPlayers {
			fail("C17", "next-error", "Next returns %v", err)
		}
		if len(playable) >= 2 {
			// C17: the button goes to the first playable seat clockwise from the previous dealer
			if err != nil {
				fail("C17", "next-refused", "Next is refused (%v) although seats %v could play", err, playable)
			} else if sm.dealer == nil {
				fail("C17", "no-dealer", "Next succeeds without a dealer")
			} else {
				want := -1
				start := sh.lastDealer
				for k := 1; k <= n; k++ {
					j := (start + k + n) % n
					if start < 0 {
						j = k - 1
					}
					for _, p := range playable {
						if p == j && want < 0 {
							want = j
						}
					}
				}
				if sm.dealer.ID != want {
					fail("C17", "button", "the button goes from seat %d to seat %d; the first seat that could play clockwise from there is %d (could play: %v)", sh.lastDealer, sm.dealer.ID, want, playable)
				}
			}
		}
		if err != nil {
			cnt := 0
			for i := 0; i < n; i++ {
				if smPlayable(sm.seats[i]) {
					cnt++
				}
			}
			if cnt >= 2 {
				fail("C17", "refused-with-players", "Next is refused although %d seats can play afterwards", cnt)
			}
		}
		if err == nil {
			accepted = true
			prevDealer := sh.lastDealer
			if sm.dealer != nil {
				sh.lastDealer = sm.dealer.ID
			}
			// C08: positions after a successful move
			var pl []int
			for i := 0; i < n; i++ {
				if smPlayable(sm.seats[i]) {
					pl = append(pl, i)
				}
			}
			if sm.dealer == nil || sm.sb == nil || sm.bb == nil {
				fail("C08", "positions-missing", "dealer/sb/bb not all assigned after a successful Next")
			} else {
				for name, s := range map[string]*Seat{"dealer": sm.dealer, "small blind": sm.sb, "big blind": sm.bb} {
					if !smPlayable(s) {
						fail("C08", "position-not-playable", "the %s is on seat %d which cannot play", name, s.ID)
					}
				}
				next := func(from int) int {
					for k := 1; k <= n; k++ {
						j := (from + k) % n
						if smPlayable(sm.seats[j]) {
							return j
						}
					}
					return -1
				}
				if len(pl) == 2 {
					if sm.sb != sm.dealer || sm.bb == sm.dealer {
						fail("C08", "heads-up", "two seats can play: dealer %d, sb %d, bb %d", sm.dealer.ID, sm.sb.ID, sm.bb.ID)
					}
				} else if len(pl) >= 3 {
					if sm.sb.ID != next(sm.dealer.ID) || sm.bb.ID != next(sm.sb.ID) {
						fail("C08", "blinds-order", "%d seats can play %v: dealer %d, sb %d, bb %d (expected sb %d, bb %d)", len(pl), pl, sm.dealer.ID, sm.sb.ID, sm.bb.ID, next(sm.dealer.ID), next(next(sm.dealer.ID)))
						// recorded finding F-HEADSUP-WITH-LATE-JOINER: exactly two seats could play when the blinds were
						// laid out heads-up, and the same Next() then switched on a late joiner who sits behind the big blind
						// (a joiner between the previous and the new dealer is switched on before the blinds are laid
						// out; if such a seat shows up here something else is wrong)
						joined := false
						dist := func(from, to int) int { return ((to-from)%n + n) % n }
						for _, w := range waiting {
							if smPlayable(sm.seats[w]) {
								joined = true
								if prevDealer >= 0 && dist(prevDealer, w) > 0 && dist(prevDealer, w) < dist(prevDealer, sm.dealer.ID) {
									joined = false
									break
								}
							}
						}
						if f != nil && f.Check == "blinds-order" && len(playable) == 2 && joined && sm.sb == sm.dealer {
							f.Known = "F-HEADSUP-WITH-LATE-JOINER"
						}
					}
				}
			}
		}
	}
	// C18: the number of seated players always equals successful joins minus leaves
	occ := 0
	for i := 0; i < n; i++ {
		if sm.seats[i].Player != nil {
			occ++
		}
	}
	if occ != sh.joins-sh.leaves {
		fail("C18", "count", "%d seats hold a player after %d joins and %d leaves", occ, sh.joins, sh.leaves)
	}
	return f, accepted
}

func smReplay(max int, path []smop, prop string) (*SeatManager, *smshadow, *smfail) {
	sm := NewSeatManager(max)
	sh := &smshadow{occupied: map[int]bool{}, lastDealer: -1}
	for _, o := range path {
		if f, _ := smStep(sm, sh, o, prop); f != nil {
			return sm, sh, f
		}
	}
	return sm, sh, nil
}

func TestVerifSeatManagerBounded(t *testing.T) {
	prop := os.Getenv("VERIF_PROP")
	depth, _ := strconv.Atoi(os.Getenv("VERIF_SM_DEPTH"))
	if depth == 0 {
		depth = 7
	}
	maxSeats, _ := strconv.Atoi(os.Getenv("VERIF_SM_SEATS"))
	if maxSeats == 0 {
		maxSeats = 4
	}
	maxStates, _ := strconv.Atoi(os.Getenv("VERIF_SM_STATES"))
	if maxStates == 0 {
		maxStates = 30000
	}
	var failure *smfail
	known := map[string]*smfail{}
	states, transitions, nexts := 0, 0, 0
	for max := 3; max <= maxSeats && failure == nil; max++ {
		var ops []smop
		for i := -1; i <= max; i++ {
			ops = append(ops, smop{"join", i})
		}
		for i := 0; i < max; i++ {
			ops = append(ops, smop{"seat", i}, smop{"leave", i})
		}
		ops = append(ops, smop{"leave", max}, smop{"reserve", 0}, smop{"next", 0})
		seen := map[string]bool{}
		frontier := [][]smop{nil}
		for d := 0; d < depth && failure == nil && len(frontier) > 0; d++ {
			var nextFrontier [][]smop
			for _, path := range frontier {
				if failure != nil || len(seen) >= maxStates {
					break
				}
				for _, o := range ops {
					// the shadow record depends on the whole history (joins, leaves, last dealer): replay from scratch
					sm, sh, f := smReplay(max, path, prop)
					if f != nil {
						continue
					}
					f, _ = smStep(sm, sh, o, prop)
					transitions++
					if o.Kind == "next" {
						nexts++
					}
					p2 := append(append([]smop{}, path...), o)
					if f != nil && f.Known != "" {
						if known[f.Known] == nil {
							f.Max, f.Path = max, p2
							known[f.Known] = f
						}
						continue // the history is not extended beyond a recorded finding
					}
					if f != nil {
						f.Max, f.Path = max, p2
						failure = f
						break
					}
					key := smKey(sm) + fmt.Sprintf("#%d", sh.lastDealer)
					if !seen[key] {
						seen[key] = true
						nextFrontier = append(nextFrontier, p2)
					}
				}
			}
			frontier = nextFrontier
		}
		states += len(seen)
	}
	// canary of the recorded finding F-HEADSUP-WITH-LATE-JOINER: the smallest history known to show it (5 seats)
	if prop == "" || prop == "C08" {
		canary := []smop{{"join", 0}, {"join", 1}, {"join", 2}, {"join", 3}, {"seat", 0}, {"seat", 1}, {"seat", 2}, {"next", 0}, {"next", 0},
			{"join", 4}, {"leave", 0}, {"leave", 1}, {"seat", 3}, {"seat", 4}, {"next", 0}}
		if _, _, f := smReplay(5, canary, prop); f != nil {
			f.Max, f.Path = 5, canary
			if f.Known != "" {
				if known[f.Known] == nil {
					known[f.Known] = f
				}
			} else if failure == nil {
				failure = f
			}
		}
	}
	rep := map[string]interface{}{"property": prop, "cases": transitions, "distinct_nontrivial": states, "states": states, "transitions": transitions, "next_calls": nexts,
		"bound": fmt.Sprintf("tables of 3..%d seats, every sequence of join(seat / any / out of range), seat, reserve, leave, next up to depth %d, deduplicated on the observable state (at most %d states per table size)", maxSeats, depth, maxStates)}
	if len(known) > 0 {
		var kl []map[string]interface{}
		for id, f := range known {
			kl = append(kl, map[string]interface{}{"id": id, "input": map[string]interface{}{"max": f.Max, "path": f.Path}, "message": f.Check + ": " + f.Msg})
		}
		rep["known_findings"] = kl
	}
	if failure != nil {
		rep["failure"] = failure
		rep["message"] = failure.Check + ": " + failure.Msg
	}
	b, _ := json.Marshal(rep)
	fmt.Println("VERIF-REPORT " + string(b))
	if failure != nil {
		t.Fatalf("%s violated: %s: %s (max %d, path %v)", failure.Property, failure.Check, failure.Msg, failure.Max, failure.Path)
	}
}

// replay of one recorded history: VERIF_REPLAY=<file holding {"max":..., "path":[...]}>
func TestVerifSeatManagerReplay(t *testing.T) {
	path := os.Getenv("VERIF_REPLAY")
	if path == "" {
		t.Skip("no VERIF_REPLAY")
	}
	b, err := os.ReadFile(path)
	if err != nil {
		t.Fatal(err)
	}
	var in struct {
		Max  int    `json:"max"`
		Path []smop `json:"path"`
	}
	if err := json.Unmarshal(b, &in); err != nil {
		t.Fatal(err)
	}
	if _, _, f := smReplay(in.Max, in.Path, os.Getenv("VERIF_PROP")); f != nil {
		t.Fatalf("%s violated: %s: %s", f.Property, f.Check, f.Msg)
	}
	t.Logf("replayed %d operations on a table of %d seats", len(in.Path), in.Max)
}
