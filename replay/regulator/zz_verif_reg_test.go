package regulator

// Bounded cross-check / stand-in for the regulator properties C09, C19 and C20, run against the real code through
// `go test -overlay` by /verif/bin/check. A small tournament environment follows the regulator's instructions
// exactly (tables are opened with the players given to requestTableFn, receive the players given to
// assignPlayersFn and returned by SyncState, release the number of players SyncState asks for and hand them back
// through ReleasePlayers, disappear when told to break). Every sequence of registrations (batches), start, deadline
// and syncs with eliminations up to a depth bound is explored for several (max, min) settings, deduplicated on the
// observable state; after every step the oracles of C09 (everybody in exactly one place, counters equal reality) and
// C19 (capacity, no table before the start / below the minimum) are evaluated, and from every explored state the
// tables are swept (several orders) until a whole sweep asks for nothing, which must happen within a small number of
// sweeps (C20). Bounded check, not a proof.

import (
	"encoding/json"
	"fmt"
	"os"
	"sort"
	"strconv"
	"strings"
	"testing"
)

type rgop struct {
	Kind  string `json:"op"` // add | start | deadline | sync
	N     int    `json:"n,omitempty"`
	Table int    `json:"table,omitempty"` // index into the sorted list of live table ids
	Out   int    `json:"out,omitempty"`
}

func (o rgop) String() string {
	switch o.Kind {
	case "add":
		return fmt.Sprintf("add(%d)", o.N)
	case "sync":
		return fmt.Sprintf("sync(#%d,out=%d)", o.Table, o.Out)
	}
	return o.Kind
}

type rgcfg struct {
	Max int `json:"max"`
	Min int `json:"min"`
}

type rgfail struct {
	Property string `json:"property"`
	Check    string `json:"check"`
	Msg      string `json:"message"`
	Cfg      rgcfg  `json:"config"`
	Path     []rgop `json:"path"`
}

// the environment: what really happens at the tables
type rgenv struct {
	cfg      rgcfg
	r        *regulator
	tables   map[string][]string
	nextID   int
	nextP    int
	alive    map[string]bool
	started  bool
	fail     *rgfail
	prop     string
	hadTable bool
	opSeq    int // number of the public operation being applied
	firstOp  int // operation that opened the first table (-1: none yet)
}

func (e *rgenv) failf(p, check, f string, a ...interface{}) {
	if e.fail == nil && (e.prop == "" || e.prop == p) {
		e.fail = &rgfail{Property: p, Check: check, Msg: fmt.Sprintf(f, a...), Cfg: e.cfg}
	}
}

func newRgenv(c rgcfg, prop string) *rgenv {
	e := &rgenv{cfg: c, tables: map[string][]string{}, alive: map[string]bool{}, prop: prop, firstOp: -1}
	e.r = NewRegulator(MaxPlayersPerTable(c.Max), MinInitialPlayers(c.Min),
		WithRequestTableFn(func(players []string) (string, error) {
			e.nextID++
			id := fmt.Sprintf("t%02d", e.nextID)
			if !e.started {
				e.failf("C19", "table-before-start", "a table is opened with %d players before the competition has started", len(players))
			}
			if len(players) > c.Max {
				e.failf("C19", "open-over-capacity", "a table is opened with %d players (maximum %d)", len(players), c.Max)
			}
			// the initial allocation = every table opened by the operation that opens the first table
			if e.firstOp < 0 {
				e.firstOp = e.opSeq
			}
			if e.firstOp == e.opSeq && len(players) < c.Min {
				e.failf("C19", "initial-below-minimum", "the initial allocation opens a table with %d players (minimum %d)", len(players), c.Min)
			}
			e.hadTable = true
			e.tables[id] = append([]string{}, players...)
			return id, nil
		}),
		WithAssignPlayersFn(func(tableID string, players []string) error {
			if _, ok := e.tables[tableID]; !ok {
				e.failf("C09", "assign-unknown-table", "players are assigned to table %s which does not exist", tableID)
				return nil
			}
			e.tables[tableID] = append(e.tables[tableID], players...)
			if len(e.tables[tableID]) > c.Max {
				e.failf("C19", "topup-over-capacity", "table %s holds %d players after a top-up (maximum %d)", tableID, len(e.tables[tableID]), c.Max)
			}
			return nil
		})).(*regulator)
	return e
}

func (e *rgenv) ids() []string {
	var ids []string
	for id := range e.tables {
		ids = append(ids, id)
	}
	sort.Strings(ids)
	return ids
}

// one sync of one table, the table following the regulator's answer; returns whether anything was asked
func (e *rgenv) sync(id string, out int) bool {
	seat := e.tables[id]
	if out > len(seat) {
		out = len(seat)
	}
	for _, p := range seat[:out] {
		delete(e.alive, p)
	}
	seat = seat[out:]
	e.tables[id] = seat
	release, news, err := e.r.SyncState(id, out)
	if err != nil {
		e.failf("C09", "sync-error", "SyncState(%s, %d) returns %v", id, out, err)
		return false
	}
	asked := release > 0 || len(news) > 0
	if release > len(seat) {
		e.failf("C09", "release-more-than-seated", "table %s with %d players is told to release %d", id, len(seat), release)
		release = len(seat)
	}
	if e.r.GetTable(id) == nil {
		// told to break: it hands back all of its players
		if release != len(seat) {
			e.failf("C20", "break-hands-back-all", "table %s is broken with %d players but told to release %d", id, len(seat), release)
		}
		delete(e.tables, id)
		if len(seat) > 0 {
			if err := e.r.ReleasePlayers(id, seat); err != nil {
				e.failf("C09", "release-error", "ReleasePlayers returns %v", err)
			}
		}
		return true
	}
	if release > 0 {
		rel := append([]string{}, seat[len(seat)-release:]...)
		e.tables[id] = seat[:len(seat)-release]
		if err := e.r.ReleasePlayers(id, rel); err != nil {
			e.failf("C09", "release-error", "ReleasePlayers returns %v", err)
		}
	}
	if len(news) > 0 {
		e.tables[id] = append(e.tables[id], news...)
		if len(e.tables[id]) > e.cfg.Max {
			e.failf("C19", "sync-over-capacity", "table %s holds %d players after a sync (maximum %d)", id, len(e.tables[id]), e.cfg.Max)
		}
	}
	return asked
}

func (e *rgenv) apply(o rgop) (accepted bool) {
	e.opSeq++
	defer func() {
		if r := recover(); r != nil {
			e.failf("C09", "panic", "%s panics: %v", o, r)
		}
	}()
	switch o.Kind {
	case "add":
		var ps []string
		for i := 0; i < o.N; i++ {
			e.nextP++
			ps = append(ps, fmt.Sprintf("p%03d", e.nextP))
		}
		before := e.key()
		err := e.r.AddPlayers(ps)
		if e.r.status == CompetitionStatus_AfterRegDeadline {
			if err == nil {
				e.failf("C09", "late-registration", "a registration after the deadline is accepted")
			} else if e.key() != before {
				e.failf("C09", "refusal-changes-state", "a refused registration changes the state: %s -> %s", before, e.key())
			}
			e.nextP -= o.N
			return false
		}
		if err != nil {
			e.failf("C09", "add-error", "AddPlayers returns %v", err)
			return false
		}
		for _, p := range ps {
			e.alive[p] = true
		}
		return true
	case "start":
		if e.started {
			return false
		}
		e.started = true
		e.r.SetStatus(CompetitionStatus_Normal)
		return true
	case "deadline":
		if !e.started || e.r.status == CompetitionStatus_AfterRegDeadline {
			return false
		}
		e.r.SetStatus(CompetitionStatus_AfterRegDeadline)
		return true
	case "sync":
		ids := e.ids()
		if o.Table >= len(ids) {
			// unknown table: refused without changing anything
			before := e.key()
			_, _, err := e.r.SyncState(fmt.Sprintf("nope%d", o.Table), o.Out)
			if err == nil {
				e.failf("C09", "unknown-table", "a sync naming an unknown table is accepted")
			} else if e.key() != before {
				e.failf("C09", "refusal-changes-state", "a refused sync changes the state: %s -> %s", before, e.key())
			}
			return false
		}
		if o.Out > len(e.tables[ids[o.Table]]) {
			return false
		}
		e.sync(ids[o.Table], o.Out)
		return true
	}
	return false
}

// observable state (dedup key)
func (e *rgenv) key() string {
	var parts []string
	for _, id := range e.ids() {
		t := e.r.GetTable(id)
		pc, rq := -1, -1
		if t != nil {
			pc, rq = t.PlayerCount, t.Required
		}
		parts = append(parts, fmt.Sprintf("%d/%d/%d", len(e.tables[id]), pc, rq))
	}
	sort.Strings(parts)
	return fmt.Sprintf("%d|%d|%d|%d|%s", e.r.status, e.r.playerCount, e.r.tableCount, len(e.r.waitingQueue), strings.Join(parts, ","))
}

// C09 / C19 oracles on the current state
func (e *rgenv) check() {
	seen := map[string]string{}
	place := func(p, where string) {
		if w, dup := seen[p]; dup {
			e.failf("C09", "duplicate", "player %s is in two places: %s and %s", p, w, where)
		}
		seen[p] = where
		if !e.alive[p] {
			e.failf("C09", "ghost", "player %s (eliminated or never registered) is at %s", p, where)
		}
	}
	for _, p := range e.r.waitingQueue {
		place(p, "the waiting queue")
	}
	for id, seat := range e.tables {
		for _, p := range seat {
			place(p, "table "+id)
		}
		if len(seat) > e.cfg.Max {
			e.failf("C19", "over-capacity", "table %s holds %d players (maximum %d)", id, len(seat), e.cfg.Max)
		}
		t := e.r.GetTable(id)
		if t == nil {
			e.failf("C09", "table-unknown-to-regulator", "table %s exists but the regulator does not know it", id)
		} else if t.PlayerCount != len(seat) {
			e.failf("C09", "table-count", "table %s holds %d players, the regulator records %d", id, len(seat), t.PlayerCount)
		}
	}
	for p := range e.alive {
		if _, ok := seen[p]; !ok {
			e.failf("C09", "lost", "player %s is neither waiting nor at a table", p)
		}
	}
	if e.r.GetPlayerCount() != len(e.alive) {
		e.failf("C09", "player-total", "the regulator counts %d players, %d are in the competition", e.r.GetPlayerCount(), len(e.alive))
	}
	if e.r.GetTableCount() != len(e.tables) || len(e.r.tables) != len(e.tables) {
		e.failf("C09", "table-total", "the regulator counts %d tables (%d in its map), %d exist", e.r.GetTableCount(), len(e.r.tables), len(e.tables))
	}
}

// C20: with no registrations and no eliminations, sweeping all tables settles within maxSweeps sweeps
func (e *rgenv) settles(order int, maxSweeps int) (int, bool) {
	for s := 1; s <= maxSweeps; s++ {
		asked := false
		ids := e.ids()
		if order == 1 {
			sort.Sort(sort.Reverse(sort.StringSlice(ids)))
		} else if order == 2 {
			// fullest table first
			sort.SliceStable(ids, func(i, j int) bool { return len(e.tables[ids[i]]) > len(e.tables[ids[j]]) })
		} else if order == 3 {
			sort.SliceStable(ids, func(i, j int) bool { return len(e.tables[ids[i]]) < len(e.tables[ids[j]]) })
		}
		for _, id := range ids {
			if _, ok := e.tables[id]; !ok {
				continue
			}
			if e.sync(id, 0) {
				asked = true
			}
			e.check()
			if e.fail != nil {
				return s, false
			}
		}
		if !asked {
			return s, true
		}
	}
	return maxSweeps, false
}

func rgReplay(c rgcfg, path []rgop, prop string) *rgenv {
	e := newRgenv(c, prop)
	for _, o := range path {
		e.apply(o)
		e.check()
		if e.fail != nil {
			break
		}
	}
	return e
}

func rgInt(name string, def int) int {
	if v, err := strconv.Atoi(os.Getenv(name)); err == nil {
		return v
	}
	return def
}

func TestVerifRegulatorBounded(t *testing.T) {
	prop := os.Getenv("VERIF_PROP")
	depth := rgInt("VERIF_RG_DEPTH", 7)
	maxStates := rgInt("VERIF_RG_STATES", 4000)
	maxSweeps := rgInt("VERIF_RG_SWEEPS", 8)
	cfgs := []rgcfg{{3, 2}, {4, 3}, {6, 5}, {9, 6}}
	if os.Getenv("VERIF_RG_LEVEL") == "2" {
		cfgs = append(cfgs, rgcfg{4, 2}, rgcfg{6, 4}, rgcfg{9, 8})
	}
	var failure *rgfail
	states, transitions, sweepsRun, worst := 0, 0, 0, 0
	for _, c := range cfgs {
		if failure != nil {
			break
		}
		ops := []rgop{{Kind: "add", N: 1}, {Kind: "add", N: 2}, {Kind: "add", N: c.Min}, {Kind: "add", N: c.Max + 1}, {Kind: "add", N: 2*c.Max + 1},
			{Kind: "start"}, {Kind: "deadline"}}
		for ti := 0; ti < 4; ti++ {
			for out := 0; out <= 2; out++ {
				ops = append(ops, rgop{Kind: "sync", Table: ti, Out: out})
			}
		}
		ops = append(ops, rgop{Kind: "sync", Table: 9, Out: 0})
		seen := map[string]bool{}
		frontier := [][]rgop{nil}
		for d := 0; d < depth && failure == nil && len(frontier) > 0; d++ {
			var next [][]rgop
			for _, path := range frontier {
				if failure != nil || len(seen) >= maxStates {
					break
				}
				for _, o := range ops {
					e := rgReplay(c, path, prop)
					if e.fail != nil {
						continue
					}
					acc := e.apply(o)
					e.check()
					transitions++
					p2 := append(append([]rgop{}, path...), o)
					if e.fail != nil {
						e.fail.Path = p2
						failure = e.fail
						break
					}
					if !acc {
						continue
					}
					k := e.key()
					if seen[k] {
						continue
					}
					seen[k] = true
					next = append(next, p2)
					// C20 from this state, a few sweep orders (each on a fresh replay)
					if (prop == "" || prop == "C20") && e.started && len(e.tables) > 0 {
						for order := 0; order < 4; order++ {
							e2 := rgReplay(c, p2, prop)
							n, ok := e2.settles(order, maxSweeps)
							sweepsRun++
							if n > worst && ok {
								worst = n
							}
							if e2.fail != nil {
								e2.fail.Path = p2
								failure = e2.fail
								break
							}
							if !ok {
								failure = &rgfail{Property: "C20", Check: "does-not-settle", Cfg: c, Path: p2,
									Msg: fmt.Sprintf("after %d sweeps (order %d) tables are still asked to move players: %s", maxSweeps, order, e2.key())}
								break
							}
						}
					}
					if failure != nil {
						break
					}
				}
			}
			frontier = next
		}
		states += len(seen)
	}
	rep := map[string]interface{}{"property": prop, "cases": transitions, "distinct_nontrivial": states, "states": states, "transitions": transitions,
		"sweep_runs": sweepsRun, "worst_sweeps_to_settle": worst,
		"bound": fmt.Sprintf("%d (max,min) settings, every sequence of registrations (1, 2, min, max+1, 2max+1 players), start, deadline, syncs of up to 4 tables with 0..2 eliminations and a sync of an unknown table, depth %d, at most %d states per setting; from every state 4 sweep orders, settle bound %d sweeps", len(cfgs), depth, maxStates, maxSweeps)}
	if failure != nil {
		rep["failure"] = failure
		rep["message"] = failure.Check + ": " + failure.Msg
	}
	b, _ := json.Marshal(rep)
	fmt.Println("VERIF-REPORT " + string(b))
	if failure != nil {
		t.Fatalf("%s violated: %s: %s (config %+v, path %v)", failure.Property, failure.Check, failure.Msg, failure.Cfg, failure.Path)
	}
}

// replay of one recorded history: VERIF_REPLAY=<file holding {"config":..., "path":[...]}>
func TestVerifRegulatorReplay(t *testing.T) {
	path := os.Getenv("VERIF_REPLAY")
	if path == "" {
		t.Skip("no VERIF_REPLAY")
	}
	b, err := os.ReadFile(path)
	if err != nil {
		t.Fatal(err)
	}
	var in struct {
		Cfg  rgcfg  `json:"config"`
		Path []rgop `json:"path"`
	}
	if err := json.Unmarshal(b, &in); err != nil {
		t.Fatal(err)
	}
	prop := os.Getenv("VERIF_PROP")
	e := rgReplay(in.Cfg, in.Path, prop)
	if e.fail != nil {
		t.Fatalf("%s violated: %s: %s", e.fail.Property, e.fail.Check, e.fail.Msg)
	}
	if (prop == "" || prop == "C20") && e.started && len(e.tables) > 0 {
		for order := 0; order < 4; order++ {
			e2 := rgReplay(in.Cfg, in.Path, prop)
			if _, ok := e2.settles(order, rgInt("VERIF_RG_SWEEPS", 8)); !ok || e2.fail != nil {
				t.Fatalf("C20 violated: the tables do not settle (order %d): %s", order, e2.key())
			}
		}
	}
	t.Logf("replayed %d operations", len(in.Path))
}
