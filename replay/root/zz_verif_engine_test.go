package pokerface

// Bounded stand-in / replay platform for the engine properties, run against the real code through
// `go test -overlay` by /verif/bin/check. It explores EVERY sequence of operations the engine accepts (and, for the
// refusal clauses, every operation it must refuse) from Start to GameClosed for a family of small table
// configurations with a fixed deck, and evaluates oracles written from the property statements at every state
// and transition. Bounded check (stated bound: see the report), not a proof.

import (
	"encoding/json"
	"fmt"
	"os"
	"sort"
	"strconv"
	"strings"
	"testing"
)

type xcfg struct {
	Bankrolls []int64 `json:"bankrolls"`
	Ante      int64   `json:"ante"`
	SB        int64   `json:"sb"`
	BB        int64   `json:"bb"`
	DealerB   int64   `json:"dealer_blind"`
	Limit     string  `json:"limit"`
	Req       int     `json:"required_hole_cards,omitempty"`
}

type xop struct {
	Kind   string `json:"op"`
	Seat   int    `json:"seat,omitempty"`
	Amount int64  `json:"amount,omitempty"`
}

func (o xop) String() string {
	switch o.Kind {
	case "bet", "raise":
		return fmt.Sprintf("%s(%d)", o.Kind, o.Amount)
	}
	return o.Kind
}

type xfail struct {
	Property string `json:"property"`
	Check    string `json:"check"`
	Msg      string `json:"message"`
	Cfg      xcfg   `json:"config"`
	Path     []xop  `json:"path"`
	Known    string `json:"known,omitempty"`
}

func xpositions(n, i int) []string {
	if n == 2 {
		if i == 0 {
			return []string{"dealer", "sb"}
		}
		return []string{"bb"}
	}
	switch i {
	case 0:
		return []string{"dealer"}
	case 1:
		return []string{"sb"}
	case 2:
		return []string{"bb"}
	}
	return []string{}
}

func xnew(c xcfg) (Game, error) {
	opts := NewStardardGameOptions()
	opts.Ante = c.Ante
	opts.Blind = BlindSetting{Dealer: c.DealerB, SB: c.SB, BB: c.BB}
	opts.Limit = c.Limit
	opts.RequiredHoleCardsCount = c.Req
	opts.Deck = NewStandardDeckCards()
	for i, b := range c.Bankrolls {
		opts.Players = append(opts.Players, &PlayerSetting{Bankroll: b, Positions: xpositions(len(c.Bankrolls), i)})
	}
	g := NewGame(opts)
	if err := g.Start(); err != nil {
		return nil, err
	}
	// Start shuffles with a time seed: pin the deck order (nothing has been dealt yet)
	g.GetState().Meta.Deck = NewStandardDeckCards()
	return g, nil
}

func xclone(gs *GameState) *GameState {
	b, err := json.Marshal(gs)
	if err != nil {
		panic(err)
	}
	var s GameState
	if err := json.Unmarshal(b, &s); err != nil {
		panic(err)
	}
	return &s
}

func xkey(gs *GameState) string {
	c := xclone(gs)
	c.UpdatedAt, c.CreatedAt, c.GameID = 0, 0, ""
	b, _ := json.Marshal(c)
	return string(b)
}

// first difference between two JSON renderings (for messages)
func xdiff(a, b string) string {
	n := len(a)
	if len(b) < n {
		n = len(b)
	}
	i := 0
	for i < n && a[i] == b[i] {
		i++
	}
	lo := i - 60
	if lo < 0 {
		lo = 0
	}
	ha, hb := i+60, i+60
	if ha > len(a) {
		ha = len(a)
	}
	if hb > len(b) {
		hb = len(b)
	}
	return fmt.Sprintf("in-memory ...%s... vs resumed ...%s...", a[lo:ha], b[lo:hb])
}

func xapply(g Game, o xop) (err error) {
	switch o.Kind {
	case "ready":
		return g.ReadyForAll()
	case "ante":
		return g.PayAnte()
	case "blinds":
		return g.PayBlinds()
	case "next":
		return g.Next()
	}
	p := g.Player(o.Seat)
	switch o.Kind {
	case "pass":
		return p.Pass()
	case "fold":
		return p.Fold()
	case "check":
		return p.Check()
	case "call":
		return p.Call()
	case "allin":
		return p.Allin()
	case "bet":
		return p.Bet(o.Amount)
	case "raise":
		return p.Raise(o.Amount)
	case "pay":
		return p.Pay(o.Amount)
	}
	panic("unknown op " + o.Kind)
}

func has(xs []string, x string) bool {
	for _, y := range xs {
		if y == x {
			return true
		}
	}
	return false
}

func uniq(xs []int64) []int64 {
	sort.Slice(xs, func(i, j int) bool { return xs[i] < xs[j] })
	var out []int64
	for i, x := range xs {
		if i == 0 || x != xs[i-1] {
			out = append(out, x)
		}
	}
	return out
}

// enabled operations at a wait state (with a small, boundary-oriented set of amounts)
func xenabled(gs *GameState) []xop {
	switch gs.Status.CurrentEvent {
	case "ReadyRequested":
		return []xop{{Kind: "ready"}}
	case "AnteRequested":
		return []xop{{Kind: "ante"}}
	case "BlindsRequested":
		return []xop{{Kind: "blinds"}}
	case "RoundClosed":
		return []xop{{Kind: "next"}}
	case "RoundStarted":
		cp := gs.Status.CurrentPlayer
		if cp < 0 || cp >= len(gs.Players) {
			return nil
		}
		p := gs.Players[cp]
		var ops []xop
		for _, a := range p.AllowedActions {
			switch a {
			case "bet":
				for _, x := range uniq([]int64{-1, 0, 1, gs.Status.MiniBet, p.StackSize - 1, p.StackSize, p.StackSize + 1}) {
					ops = append(ops, xop{Kind: "bet", Seat: cp, Amount: x})
				}
			case "raise":
				cw, prs := gs.Status.CurrentWager, gs.Status.PreviousRaiseSize
				for _, x := range uniq([]int64{0, cw - 1, cw, cw + 1, cw + prs - 1, cw + prs, p.InitialStackSize - 1, p.InitialStackSize, p.InitialStackSize + 1}) {
					ops = append(ops, xop{Kind: "raise", Seat: cp, Amount: x})
				}
			default:
				ops = append(ops, xop{Kind: a, Seat: cp})
			}
		}
		return ops
	}
	return nil
}

// ---------------------------------------------------------------------------------------------
// oracles
// ---------------------------------------------------------------------------------------------

type xchk struct{ prop, check, msg, known string }

func xstateOracles(gs *GameState, c xcfg) []xchk {
	var out []xchk
	add := func(prop, check, f string, a ...interface{}) {
		out = append(out, xchk{prop, check, fmt.Sprintf(f, a...), ""})
	}
	n := len(gs.Players)
	var sumW, sumIn int64
	for i, p := range gs.Players {
		if p.StackSize < 0 || p.Wager < 0 || p.Pot < 0 {
			add("C01", "negative", "seat %d: stack %d wager %d pot %d", i, p.StackSize, p.Wager, p.Pot)
		}
		if p.Bankroll != p.StackSize+p.Wager+p.Pot {
			add("C01", "bankroll-split", "seat %d: bankroll %d != stack %d + wager %d + pot %d", i, p.Bankroll, p.StackSize, p.Wager, p.Pot)
		}
		if p.StackSize > p.Bankroll {
			add("C12", "stack-above-bankroll", "seat %d: stack %d above bankroll %d", i, p.StackSize, p.Bankroll)
		}
		sumW += p.Wager
		sumIn += p.Wager + p.Pot
	}
	if gs.Status.CurrentRoundPot != sumW {
		add("C01", "round-pot", "round pot %d != wagers on the table %d", gs.Status.CurrentRoundPot, sumW)
	}
	ev := gs.Status.CurrentEvent
	if ev == "RoundClosed" || ev == "GameClosed" {
		var tot int64
		for _, p := range gs.Status.Pots {
			tot += p.Total
		}
		if tot != sumIn {
			add("C01", "pots-total", "published pots add up to %d, players put in %d", tot, sumIn)
		}
	}
	if ev == "GameClosed" {
		if gs.Result == nil {
			add("C06", "no-result", "closed hand without a settlement result")
		} else {
			var sum int64
			for _, r := range gs.Result.Players {
				sum += r.Changed
				p := gs.Players[r.Idx]
				if r.Final != p.Bankroll+r.Changed {
					add("C01", "final", "seat %d: final %d != bankroll %d + change %d", r.Idx, r.Final, p.Bankroll, r.Changed)
				}
				if r.Final < 0 {
					add("C01", "final-negative", "seat %d: final stack %d", r.Idx, r.Final)
				}
				if r.Changed < -(p.Pot + p.Wager) {
					add("C01", "loss-bound", "seat %d loses %d but put in %d", r.Idx, -r.Changed, p.Pot+p.Wager)
				}
				if p.Fold && r.Changed > 0 {
					add("C02", "folded-wins", "folded seat %d wins %d", r.Idx, r.Changed)
				}
			}
			if sum != 0 {
				add("C01", "zero-sum", "changes sum to %d", sum)
			}
			// C02: every layer of the pot goes to the best hand(s) among the non-folded seats that paid into it.
			// Expected take per seat from the contributions, fold flags and reported hand strengths; odd chips may
			// go to any tied winner, so the take is checked against the floor/ceiling bounds layer by layer.
			chg := make([]int64, n)
			have := 0
			for _, r := range gs.Result.Players {
				if r.Idx >= 0 && r.Idx < n {
					chg[r.Idx] = r.Changed
					have++
				}
			}
			if have == n {
				in := make([]int64, n)
				tops := []int64{}
				for i, p := range gs.Players {
					in[i] = p.Pot + p.Wager
					tops = append(tops, in[i])
				}
				tops = uniq(tops)
				lo, hi := make([]int64, n), make([]int64, n)
				okLayers := true
				var bottom int64
				for _, top := range tops {
					if top == 0 {
						continue
					}
					var amount int64
					best, k := -1, int64(0)
					for i, p := range gs.Players {
						if in[i] > bottom {
							x := in[i]
							if x > top {
								x = top
							}
							amount += x - bottom
						}
						if in[i] >= top && !p.Fold {
							sc := 0
							if p.Combination != nil {
								sc = p.Combination.Power
							}
							if sc > best {
								best, k = sc, 0
							}
							if sc == best {
								k++
							}
						}
					}
					if k == 0 {
						okLayers = false // a layer only folded seats paid into: the statement does not say who gets it
						break
					}
					for i, p := range gs.Players {
						sc := 0
						if p.Combination != nil {
							sc = p.Combination.Power
						}
						if in[i] >= top && !p.Fold && sc == best {
							lo[i] += amount / k
							hi[i] += (amount + k - 1) / k
						}
					}
					bottom = top
				}
				if okLayers {
					for i := range gs.Players {
						take := chg[i] + in[i]
						if take < lo[i] || take > hi[i] {
							add("C02", "layer-payout", "seat %d (put in %d, folded %v) takes %d out; the layers it wins give between %d and %d", i, in[i], gs.Players[i].Fold, take, lo[i], hi[i])
						}
					}
				}
			}
			alive := 0
			for _, p := range gs.Players {
				if !p.Fold {
					alive++
				}
			}
			if alive >= 2 && len(gs.Status.Board) != 5 {
				add("C05", "showdown-board", "showdown with %d board cards", len(gs.Status.Board))
			}
		}
	}
	// cards (C14): the deck itself never changes after the start (the explorer pins its order right after Start)
	if std := NewStandardDeckCards(); len(gs.Meta.Deck) != len(std) {
		add("C14", "deck-changed", "the deck has %d cards, it started with %d", len(gs.Meta.Deck), len(std))
	} else {
		for k := range std {
			if gs.Meta.Deck[k] != std[k] {
				add("C14", "deck-changed", "deck[%d] is %s, it was %s when the hand started", k, gs.Meta.Deck[k], std[k])
				break
			}
		}
	}
	// cards (C14): hole cards, burned and board are exactly the consumed top of the deck
	h := gs.Meta.HoleCardsCount
	if gs.Status.Round != "" {
		pos := 0
		for i, p := range gs.Players {
			if len(p.HoleCards) != h {
				add("C14", "hole-count", "seat %d has %d hole cards", i, len(p.HoleCards))
				break
			}
			for k := 0; k < h; k++ {
				if p.HoleCards[k] != gs.Meta.Deck[pos] {
					add("C14", "hole-cards", "seat %d card %d is %s, deck[%d] is %s", i, k, p.HoleCards[k], pos, gs.Meta.Deck[pos])
				}
				pos++
			}
		}
		wantBoard := map[string]int{"preflop": 0, "flop": 3, "turn": 4, "river": 5}[gs.Status.Round]
		if len(gs.Status.Board) != wantBoard {
			add("C14", "board-size", "%d board cards on the %s", len(gs.Status.Board), gs.Status.Round)
		}
		wantBurn := map[string]int{"preflop": 0, "flop": 1, "turn": 2, "river": 3}[gs.Status.Round]
		if len(gs.Status.Burned) != wantBurn {
			add("C14", "burn-count", "%d burned cards on the %s", len(gs.Status.Burned), gs.Status.Round)
		}
		seq := []string{}
		bi, bd := 0, 0
		for _, k := range []int{0, 3, 1, 1} { // burn, flop | burn, turn | burn, river
			_ = k
		}
		if wantBurn >= 1 && len(gs.Status.Burned) >= 1 && len(gs.Status.Board) >= 3 {
			seq = append(seq, gs.Status.Burned[0], gs.Status.Board[0], gs.Status.Board[1], gs.Status.Board[2])
			bi, bd = 1, 3
		}
		for bi < len(gs.Status.Burned) && bd < len(gs.Status.Board) {
			seq = append(seq, gs.Status.Burned[bi], gs.Status.Board[bd])
			bi++
			bd++
		}
		for k, cs := range seq {
			if pos+k >= len(gs.Meta.Deck) || cs != gs.Meta.Deck[pos+k] {
				add("C14", "community-cards", "community card %d is %s, not the next card of the deck", k, cs)
				break
			}
		}
		if gs.Status.CurrentDeckPosition != pos+len(seq) {
			add("C14", "deck-position", "deck position %d, cards out %d", gs.Status.CurrentDeckPosition, pos+len(seq))
		}
	}
	// exactly one seat is offered actions during a betting round, nobody otherwise (C04); offered table (C11)
	offered := 0
	for i, p := range gs.Players {
		if len(p.AllowedActions) > 0 {
			offered++
			if ev != "RoundStarted" || i != gs.Status.CurrentPlayer {
				add("C04", "offered-off-turn", "seat %d is offered %v at %s (current player %d)", i, p.AllowedActions, ev, gs.Status.CurrentPlayer)
			}
		}
	}
	if ev == "RoundStarted" {
		if offered != 1 {
			add("C04", "one-offered", "%d seats are offered actions", offered)
		}
		cp := gs.Status.CurrentPlayer
		if cp >= 0 && cp < n {
			p := gs.Players[cp]
			aa := p.AllowedActions
			cw, prs, mb := gs.Status.CurrentWager, gs.Status.PreviousRaiseSize, gs.Status.MiniBet
			if p.Fold || p.StackSize == 0 {
				if len(aa) != 1 || aa[0] != "pass" {
					add("C11", "pass-only", "folded/all-in seat %d is offered %v", cp, aa)
				}
			} else {
				if !has(aa, "allin") {
					add("C11", "allin-offered", "seat %d is not offered all-in: %v", cp, aa)
				}
				if has(aa, "fold") != (p.Wager < cw) {
					add("C11", "fold-offered", "seat %d wager %d, wager to match %d, offered %v", cp, p.Wager, cw, aa)
				}
				if has(aa, "check") != !(p.Wager < cw) {
					add("C11", "check-offered", "seat %d wager %d, wager to match %d, offered %v", cp, p.Wager, cw, aa)
				}
				if p.Wager < cw && p.InitialStackSize > cw && !has(aa, "call") {
					add("C11", "call-offered", "seat %d can cover %d with chips to spare but is offered %v", cp, cw, aa)
				}
				if cw == 0 && p.InitialStackSize >= mb && !has(aa, "bet") {
					add("C11", "bet-offered", "seat %d holds %d >= minimum bet %d, nobody has wagered, offered %v", cp, p.InitialStackSize, mb, aa)
				}
				if cw > 0 && p.InitialStackSize > cw+prs && p.InitialStackSize >= mb && !has(aa, "raise") {
					add("C11", "raise-offered", "seat %d holds %d > %d+%d, offered %v", cp, p.InitialStackSize, cw, prs, aa)
				}
				if has(aa, "call") && !(p.Wager < cw) {
					add("C11", "call-opposite", "call offered with nothing to call")
				}
				if has(aa, "bet") && cw != 0 {
					add("C11", "bet-opposite", "bet offered while a wager of %d stands", cw)
				}
				if has(aa, "raise") && cw == 0 {
					add("C11", "raise-opposite", "raise offered while nobody has wagered")
				}
			}
		}
	}
	if ev == "RoundClosed" {
		alive, movable := 0, 0
		for _, p := range gs.Players {
			if !p.Fold {
				alive++
				if p.StackSize > 0 {
					movable++
				}
			}
		}
		if alive >= 2 {
			for i, p := range gs.Players {
				if !p.Fold && p.StackSize > 0 && p.Wager < gs.Status.CurrentWager {
					add("C05", "closed-while-owing", "round closed while seat %d has put in %d of %d and still has chips", i, p.Wager, gs.Status.CurrentWager)
				}
			}
		}
		_ = movable
	}
	return out
}

func xtransitionOracles(s0, s1 *GameState, o xop, err error, c xcfg) []xchk {
	var out []xchk
	add := func(prop, check, known, f string, a ...interface{}) {
		out = append(out, xchk{prop, check, fmt.Sprintf(f, a...), known})
	}
	if err != nil {
		if xkey(s0) != xkey(s1) {
			add("C04", "refused-but-changed", "", "%s was refused (%v) but changed the state", o, err)
		}
		switch o.Kind {
		case "ready", "ante", "blinds", "next", "pass", "fold", "check", "call", "allin":
			add("C06", "expected-step-fails", "", "the expected step %s fails: %v", o, err)
		}
		return out
	}
	if o.Kind != "next" && o.Kind != "ready" && o.Kind != "ante" && o.Kind != "blinds" && s0.Status.Round == s1.Status.Round && s1.Status.CurrentWager < s0.Status.CurrentWager {
		add("C12", "wager-to-match-decreased", "", "wager to match went from %d to %d within the %s after %s", s0.Status.CurrentWager, s1.Status.CurrentWager, s0.Status.Round, o)
	}
	if o.Kind == "bet" && o.Amount < 0 {
		// known finding F-BET-NEGATIVE
		for i := range out {
			out[i].known = "F-BET-NEGATIVE"
		}
	}
	seat := o.Seat
	switch o.Kind {
	case "check", "fold", "pass":
		for i := range s0.Players {
			a, b := s0.Players[i], s1.Players[i]
			if a.Wager != b.Wager || a.StackSize != b.StackSize || a.Pot != b.Pot {
				add("C11", "no-chips-move", "", "%s moved chips of seat %d", o, i)
			}
		}
	case "call":
		if s1.Players[seat].Wager != s1.Status.CurrentWager && s1.Status.Round == s0.Status.Round {
			add("C11", "call-levels", "", "after call seat %d has %d, wager to match %d", seat, s1.Players[seat].Wager, s1.Status.CurrentWager)
		}
	case "bet":
		if o.Amount > 0 && o.Amount < s0.Players[seat].StackSize && s1.Status.CurrentWager != o.Amount {
			add("C11", "bet-exact", "", "bet(%d) made the wager to match %d", o.Amount, s1.Status.CurrentWager)
		}
	case "allin":
		if s1.Players[seat].StackSize != 0 || s1.Players[seat].Wager != s0.Players[seat].InitialStackSize {
			add("C11", "allin-commits", "", "after all-in seat %d has stack %d wager %d (had %d)", seat, s1.Players[seat].StackSize, s1.Players[seat].Wager, s0.Players[seat].InitialStackSize)
		}
	case "raise":
		cw, prs := s0.Status.CurrentWager, s0.Status.PreviousRaiseSize
		L := o.Amount
		p0, p1 := s0.Players[seat], s1.Players[seat]
		if c.Limit != "pot" && L > cw && L < p0.InitialStackSize && L-cw >= prs {
			if s1.Status.CurrentWager != L || p1.Wager != L || s1.Status.CurrentRaiser != seat || s1.Status.PreviousRaiseSize != L-cw {
				add("C12", "full-raise-exact", "", "raise(%d) over %d (min raise %d): wager to match %d, wager %d, raiser %d, new min raise %d", L, cw, prs, s1.Status.CurrentWager, p1.Wager, s1.Status.CurrentRaiser, s1.Status.PreviousRaiseSize)
			}
		}
		if L > cw && L-cw < prs && p1.StackSize != 0 {
			add("C12", "undersized-raise", "", "raise(%d) over %d lifts by less than %d but was carried out (stack left %d)", L, cw, prs, p1.StackSize)
		}
	case "blinds":
		var maxW int64
		for i, p := range s1.Players {
			due := int64(0)
			switch {
			case c.BB > 0 && has(p.Positions, "bb"):
				due = c.BB
			case c.SB > 0 && has(p.Positions, "sb"):
				due = c.SB
			case c.DealerB > 0 && has(p.Positions, "dealer"):
				due = c.DealerB
			}
			want := due
			if s0.Players[i].StackSize < want {
				want = s0.Players[i].StackSize
			}
			if p.Wager != want {
				add("C13", "blind-amount", "", "seat %d posted %d, forced bet %d capped at stack %d", i, p.Wager, due, s0.Players[i].StackSize)
			}
			if p.Wager > maxW {
				maxW = p.Wager
			}
		}
		if s1.Status.CurrentWager != maxW {
			add("C13", "wager-after-blinds", "", "wager to match %d, largest blind posted %d", s1.Status.CurrentWager, maxW)
		}
		if c.BB > 0 && s1.Status.PreviousRaiseSize != c.BB {
			add("C13", "min-raise-after-blinds", "", "minimum raise %d, big blind %d", s1.Status.PreviousRaiseSize, c.BB)
		}
	case "ante":
		for i, p := range s1.Players {
			want := c.Ante
			if s0.Players[i].StackSize < want {
				want = s0.Players[i].StackSize
			}
			if p.Pot-s0.Players[i].Pot != want || p.Wager != 0 {
				add("C13", "ante-amount", "", "seat %d: ante %d went to the pot as %d, wager %d", i, c.Ante, p.Pot-s0.Players[i].Pot, p.Wager)
			}
		}
		if s1.Status.CurrentWager != 0 {
			add("C13", "ante-not-wager", "", "ante counts toward the wager to match (%d)", s1.Status.CurrentWager)
		}
	case "next":
		order := map[string]string{"preflop": "flop", "flop": "turn", "turn": "river"}
		if s1.Status.CurrentEvent != "GameClosed" && s1.Status.Round != order[s0.Status.Round] {
			add("C06", "street-order", "", "next went from %s to %s", s0.Status.Round, s1.Status.Round)
		}
		alive := 0
		for _, p := range s0.Players {
			if !p.Fold {
				alive++
			}
		}
		if alive == 1 && (s1.Status.CurrentEvent != "GameClosed" || len(s1.Status.Board) != len(s0.Status.Board)) {
			add("C05", "one-left-ends", "", "one player left but the hand went on (%s, board %d -> %d)", s1.Status.CurrentEvent, len(s0.Status.Board), len(s1.Status.Board))
		}
	}
	// who acts first / next (C04)
	if s1.Status.CurrentEvent == "RoundStarted" {
		n := len(s1.Players)
		if s0.Status.CurrentEvent == "RoundStarted" && s0.Status.Round == s1.Status.Round {
			if s1.Status.CurrentPlayer != (s0.Status.CurrentPlayer+1)%n {
				add("C04", "clockwise", "", "turn went from seat %d to seat %d", s0.Status.CurrentPlayer, s1.Status.CurrentPlayer)
			}
		} else if s0.Status.CurrentEvent != "RoundStarted" {
			base := -1
			for i, p := range s1.Players {
				if s1.Status.Round == "preflop" && has(p.Positions, "bb") {
					base = i
				}
				if s1.Status.Round != "preflop" && has(p.Positions, "dealer") {
					base = i
				}
			}
			if base >= 0 && s1.Status.CurrentPlayer != (base+1)%n {
				add("C04", "first-to-act", "", "%s starts at seat %d, expected seat %d", s1.Status.Round, s1.Status.CurrentPlayer, (base+1)%n)
			}
		}
	}
	return out
}

// refusals: every operation that is not the expected one must be refused and leave the state unchanged
func xrefusals(gs *GameState, c xcfg) []xchk {
	var out []xchk
	base := xkey(gs)
	try := func(o xop, mustErr bool) {
		g := NewGameFromState(xclone(gs))
		var err error
		func() {
			defer func() {
				if r := recover(); r != nil {
					out = append(out, xchk{"C04", "refusal-panics", fmt.Sprintf("%s at %s panics: %v", o, gs.Status.CurrentEvent, r), ""})
				}
			}()
			err = xapply(g, o)
		}()
		after := xkey(g.GetState())
		if after != base {
			out = append(out, xchk{"C04", "wrong-op-changes-state", fmt.Sprintf("%s by seat %d at %s (current player %d) changed the state (err=%v)", o, o.Seat, gs.Status.CurrentEvent, gs.Status.CurrentPlayer, err), ""})
		} else if mustErr && err == nil {
			k := ""
			if o.Kind == "pass" {
				k = "F-PASS-NIL"
			}
			out = append(out, xchk{"C04", "wrong-op-no-error", fmt.Sprintf("%s by seat %d at %s is not refused with an error", o, o.Seat, gs.Status.CurrentEvent), k})
		}
	}
	ev := gs.Status.CurrentEvent
	for _, t := range [][2]string{{"ready", "ReadyRequested"}, {"ante", "AnteRequested"}, {"blinds", "BlindsRequested"}, {"next", "RoundClosed"}} {
		if ev != t[1] {
			try(xop{Kind: t[0]}, true)
		}
	}
	for i, p := range gs.Players {
		for _, a := range []string{"pass", "fold", "check", "call", "allin", "bet", "raise", "pay"} {
			if ev == "RoundStarted" && i == gs.Status.CurrentPlayer && has(p.AllowedActions, a) {
				continue
			}
			try(xop{Kind: a, Seat: i, Amount: 1}, true)
		}
	}
	return out
}

type xreport struct {
	Property    string                   `json:"property"`
	Configs     int                      `json:"configs"`
	States      int                      `json:"states"`
	Transitions int                      `json:"transitions"`
	Refusals    int                      `json:"refusal_attempts"`
	MaxDepth    int                      `json:"max_depth"`
	Closed      int                      `json:"closed_hands"`
	Samples     []interface{}            `json:"samples"`
	Failure     *xfail                   `json:"failure,omitempty"`
	Message     string                   `json:"message,omitempty"`
	Known       []map[string]interface{} `json:"known_findings,omitempty"`
	Cases       int                      `json:"cases"`
	Nontrivial  int                      `json:"distinct_nontrivial"`
	Bound       string                   `json:"bound"`
}

func xconfigs(level int) []xcfg {
	var out []xcfg
	stacks2 := [][]int64{{9, 9}, {1, 9}, {9, 2}, {3, 4}}
	stacks3 := [][]int64{{6, 6, 6}, {1, 5, 9}, {7, 2, 3}}
	if level >= 2 {
		stacks2 = append(stacks2, []int64{2, 2}, []int64{5, 1}, []int64{12, 7})
		stacks3 = append(stacks3, []int64{2, 9, 1}, []int64{4, 4, 9}, []int64{9, 1, 1})
	}
	blinds := [][3]int64{{0, 1, 2}, {0, 0, 2}, {1, 0, 0}}
	if level >= 2 {
		blinds = append(blinds, [3]int64{1, 1, 2}, [3]int64{0, 0, 0}, [3]int64{3, 0, 2})
	}
	for _, st := range append(append([][]int64{}, stacks2...), stacks3...) {
		for _, b := range blinds {
			for _, ante := range []int64{0, 1} {
				out = append(out, xcfg{Bankrolls: st, Ante: ante, DealerB: b[0], SB: b[1], BB: b[2], Limit: "no"})
			}
		}
	}
	// larger tables: the state cap cuts the exploration off, what is explored is explored completely
	out = append(out, xcfg{Bankrolls: []int64{4, 4, 4, 4}, SB: 1, BB: 2, Limit: "no"}, xcfg{Bankrolls: []int64{9, 3, 7, 5}, Ante: 1, SB: 1, BB: 2, Limit: "no"})
	if level >= 2 {
		out = append(out, xcfg{Bankrolls: []int64{6, 6, 6, 6, 6}, SB: 1, BB: 2, Limit: "no"}, xcfg{Bankrolls: []int64{20, 35, 50, 15}, SB: 5, BB: 10, Limit: "no"})
		out = append(out, xcfg{Bankrolls: []int64{9, 9}, SB: 1, BB: 2, Limit: "no", Req: 2})
		out = append(out, xcfg{Bankrolls: []int64{9, 9}, SB: 1, BB: 2, Limit: "pot"}, xcfg{Bankrolls: []int64{8, 3, 9}, SB: 1, BB: 2, Limit: "pot"})
	} else if os.Getenv("VERIF_PROP") == "C14" || os.Getenv("VERIF_PROP") == "C10" || os.Getenv("VERIF_PROP") == "C07" {
		// a rule set in which both hole cards must play (hand selection works on the hole-card slices themselves)
		out = append(out, xcfg{Bankrolls: []int64{9, 9}, SB: 1, BB: 2, Limit: "no", Req: 2})
	}
	if level < 2 && (os.Getenv("VERIF_PROP") == "C07" || os.Getenv("VERIF_PROP") == "C12") {
		// pot-limit behaviour depends on state that must survive a reload (C07) and caps raises (C12)
		out = append(out, xcfg{Bankrolls: []int64{9, 9}, SB: 1, BB: 2, Limit: "pot"})
	}
	return out
}

func TestVerifEngineBounded(t *testing.T) {
	prop := os.Getenv("VERIF_PROP")
	level, _ := strconv.Atoi(os.Getenv("VERIF_LEVEL"))
	if level == 0 {
		level = 1
	}
	maxStates, _ := strconv.Atoi(os.Getenv("VERIF_MAX_STATES"))
	if maxStates == 0 {
		maxStates = 6000
	}
	rep := &xreport{Property: prop, Bound: fmt.Sprintf("level %d: %d table configurations (2-3 seats, bankrolls 1..12, blinds/ante 0..3, fixed deck); every accepted operation sequence from Start to GameClosed with boundary amounts for bet/raise, at most %d distinct states per configuration; every other operation and seat tried for refusal at each state", level, len(xconfigs(level)), maxStates)}
	knownSeen := map[string]bool{}
	var failure *xfail
	record := func(cs []xchk, c xcfg, path []xop) {
		tainted := false
		for _, o := range path {
			if o.Kind == "bet" && o.Amount < 0 {
				tainted = true // known finding F-BET-NEGATIVE: everything downstream of an accepted negative bet
			}
		}
		for _, k := range cs {
			if prop != "" && k.prop != prop {
				continue
			}
			if tainted && k.known == "" {
				k.known = "F-BET-NEGATIVE"
			}
			if k.known != "" {
				if !knownSeen[k.known] {
					knownSeen[k.known] = true
					rep.Known = append(rep.Known, map[string]interface{}{"id": k.known, "input": map[string]interface{}{"config": c, "path": path}, "message": k.check + ": " + k.msg})
				}
				continue
			}
			if failure == nil {
				failure = &xfail{Property: k.prop, Check: k.check, Msg: k.msg, Cfg: c, Path: append([]xop{}, path...)}
			}
		}
	}
	for _, c := range xconfigs(level) {
		if failure != nil {
			break
		}
		rep.Configs++
		g, err := xnew(c)
		if err != nil {
			t.Fatalf("config %+v does not start: %v", c, err)
		}
		color := map[string]int{} // 1 = on the current path, 2 = fully explored
		var visit func(gs0 *GameState, path []xop)
		visit = func(gs0 *GameState, path []xop) {
			if failure != nil || len(color) >= maxStates {
				return
			}
			key := xkey(gs0)
			if color[key] != 0 {
				return
			}
			color[key] = 1
			defer func() { color[key] = 2 }()
			rep.States++
			if len(path) > rep.MaxDepth {
				rep.MaxDepth = len(path)
			}
			record(xstateOracles(gs0, c), c, path)
			if prop == "" || prop == "C04" {
				rf := xrefusals(gs0, c)
				rep.Refusals += 12
				record(rf, c, path)
			}
			if gs0.Status.CurrentEvent == "GameClosed" && (prop == "" || prop == "C07" || prop == "C14") {
				// C07: the explored hand hopped through JSON before every operation. The same operations on ONE
				// in-memory game (no hop at all) must end in the same state, up to timestamps and the game id.
				if g2, err := xnew(c); err == nil {
					ok := true
					for _, o := range path {
						func() {
							defer func() {
								if r := recover(); r != nil {
									ok = false
								}
							}()
							if e := xapply(g2, o); e != nil {
								ok = false
							}
						}()
					}
					if !ok {
						record([]xchk{{"C07", "resume-differs", "an operation accepted on the resumed game is refused or panics on the in-memory game", ""}}, c, path)
					} else if prop == "C14" {
						// the card oracles on a hand played entirely in memory (slices that share memory stay shared)
						record(xstateOracles(g2.GetState(), c), c, path)
					} else if a, b := xkey(g2.GetState()), xkey(gs0); a != b {
						record([]xchk{{"C07", "resume-differs", "the hand resumed from JSON before every operation ends in a different state than the same operations on one in-memory game: " + xdiff(a, b), ""}}, c, path)
					}
				}
			}
			if gs0.Status.CurrentEvent == "GameClosed" {
				rep.Closed++
				if len(rep.Samples) < 3 {
					rep.Samples = append(rep.Samples, map[string]interface{}{"config": c, "path": fmt.Sprint(path)})
				}
				// a closed hand accepts nothing (C06): covered by the refusal attempts when C04/all are checked; check here for C06
				if prop == "C06" {
					for _, k := range xrefusals(gs0, c) {
						k.prop = "C06"
						k.check = "closed-accepts"
						if k.known == "" {
							record([]xchk{k}, c, path)
						}
					}
				}
				return
			}
			ops := xenabled(gs0)
			if len(ops) == 0 {
				record([]xchk{{"C06", "stuck", fmt.Sprintf("nothing to do at %s", gs0.Status.CurrentEvent), ""}}, c, path)
			}
			for _, o := range ops {
				if failure != nil {
					return
				}
				g1 := NewGameFromState(xclone(gs0))
				var err error
				panicked := false
				func() {
					defer func() {
						if r := recover(); r != nil {
							panicked = true
							record([]xchk{{"C06", "panic", fmt.Sprintf("%s panics: %v", o, r), ""}}, c, append(append([]xop{}, path...), o))
						}
					}()
					err = xapply(g1, o)
				}()
				if panicked {
					continue
				}
				rep.Transitions++
				s1 := xclone(g1.GetState())
				p1 := append(append([]xop{}, path...), o)
				record(xtransitionOracles(gs0, s1, o, err, c), c, p1)
				// the first betting round must not start before the blinds have been requested and posted
				if err == nil && s1.Status.CurrentEvent == "RoundStarted" && s1.Status.Round == "preflop" && gs0.Status.CurrentEvent != "RoundStarted" && (c.BB > 0 || c.SB > 0 || c.DealerB > 0) {
					posted := false
					for _, q := range p1 {
						if q.Kind == "blinds" {
							posted = true
						}
					}
					if !posted {
						k := ""
						if c.DealerB == 0 && c.SB == 0 && c.BB > 0 {
							k = "F-BLINDS-SKIPPED"
						}
						record([]xchk{{"C13", "blinds-before-betting", fmt.Sprintf("preflop betting starts without the blinds having been posted (blinds %d/%d/%d)", c.DealerB, c.SB, c.BB), k}}, c, p1)
					}
				}
				if err != nil {
					continue
				}
				if o.Kind == "bet" && o.Amount < 0 {
					// canary of the known finding F-BET-NEGATIVE: the state right after an accepted negative bet
					record(xstateOracles(s1, c), c, p1)
					continue
				}
				// every path in the state graph must be finite: reaching a state that is on the current path is a cycle
				if color[xkey(s1)] == 1 {
					record([]xchk{{"C06", "no-termination", fmt.Sprintf("the hand can loop forever: %s leads back to an earlier state of the same hand", o), ""}}, c, p1)
					continue
				}
				visit(s1, p1)
			}
		}
		visit(xclone(g.GetState()), nil)
	}
	rep.Cases = rep.Transitions + rep.Refusals
	rep.Nontrivial = rep.States
	if failure != nil {
		rep.Failure = failure
		rep.Message = failure.Check + ": " + failure.Msg
	}
	b, _ := json.Marshal(rep)
	fmt.Println("VERIF-REPORT " + string(b))
	if failure != nil {
		t.Fatalf("%s violated: %s: %s\nconfig %+v\npath %v", failure.Property, failure.Check, failure.Msg, failure.Cfg, failure.Path)
	}
}

// replay of one recorded path: VERIF_REPLAY=<file holding {"config":..., "path":[...]} or a report with "failure">
func TestVerifEngineReplay(t *testing.T) {
	path := os.Getenv("VERIF_REPLAY")
	if path == "" {
		t.Skip("no VERIF_REPLAY")
	}
	b, err := os.ReadFile(path)
	if err != nil {
		t.Fatal(err)
	}
	var in struct {
		Cfg  xcfg  `json:"config"`
		Path []xop `json:"path"`
	}
	if err := json.Unmarshal(b, &in); err != nil {
		t.Fatal(err)
	}
	prop := os.Getenv("VERIF_PROP")
	g, err := xnew(in.Cfg)
	if err != nil {
		t.Fatal(err)
	}
	check := func(cs []xchk) {
		for _, k := range cs {
			if (prop == "" || k.prop == prop) && k.known == "" {
				t.Fatalf("%s violated: %s: %s", k.prop, k.check, k.msg)
			}
		}
	}
	for _, o := range in.Path {
		s0 := xclone(g.GetState())
		check(xstateOracles(s0, in.Cfg))
		err := xapply(g, o)
		check(xtransitionOracles(s0, xclone(g.GetState()), o, err, in.Cfg))
	}
	check(xstateOracles(xclone(g.GetState()), in.Cfg))
	if prop == "" || prop == "C07" {
		// the same operations with a JSON hop before every one of them
		if g0, err := xnew(in.Cfg); err == nil {
			gs := xclone(g0.GetState())
			for _, o := range in.Path {
				g1 := NewGameFromState(xclone(gs))
				xapply(g1, o)
				gs = xclone(g1.GetState())
			}
			if a, b := xkey(g.GetState()), xkey(gs); a != b {
				t.Fatalf("C07 violated: resume-differs: %s", xdiff(a, b))
			}
		}
	}
	t.Logf("replayed %d operations; final event %s; %s", len(in.Path), g.GetState().Status.CurrentEvent, strings.TrimSpace(fmt.Sprint(in.Path)))
}
