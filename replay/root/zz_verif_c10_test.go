package pokerface

// Bounded stand-in for property C10, run against the real code through `go test -overlay` by /verif/bin/check.
// (1) positional, exhaustive: combination.GetPossibleCombinations / GetAllPossibleCombinations return exactly the
//     admissible selections (every k-subset once) for every hand size the property quantifies over (up to 4 hole
//     cards + 5 board cards) — the enumeration depends only on positions, so this part is complete;
// (2) sampled: for pseudo-random deals (seed VERIF_SEED) on flop, turn and river, 2-hole and 4-hole(2 required)
//     games, both decks, the hand the real engine reports for every seat is compared with the best admissible
//     selection found by brute force with an independent evaluator written from the rules.

import (
	"encoding/json"
	"fmt"
	"math/rand"
	"os"
	"sort"
	"strconv"
	"testing"

	"github.com/weedbox/pokerface/combination"
)

var c10rank = map[string]int{"2": 2, "3": 3, "4": 4, "5": 5, "6": 6, "7": 7, "8": 8, "9": 9, "T": 10, "J": 11, "Q": 12, "K": 13, "A": 14}

type c10key [7]int

func c10spec(cards []string, table []combination.Combination) (combination.Combination, c10key) {
	var s []int
	flush := true
	for i, c := range cards {
		s = append(s, c10rank[c[1:2]])
		if c[0] != cards[0][0] {
			flush = false
		}
		_ = i
	}
	sort.Sort(sort.Reverse(sort.IntSlice(s)))
	cnt := map[int]int{}
	for _, x := range s {
		cnt[x]++
	}
	type grp struct{ c, r int }
	var gs []grp
	for rk, c := range cnt {
		gs = append(gs, grp{c, rk})
	}
	sort.Slice(gs, func(i, j int) bool {
		if gs[i].c != gs[j].c {
			return gs[i].c > gs[j].c
		}
		return gs[i].r > gs[j].r
	})
	straight, high := false, 0
	if len(gs) == 5 {
		if s[0]-s[4] == 4 {
			straight, high = true, s[0]
		} else if s[0] == 14 && s[1] == 5 && s[4] == 2 {
			straight, high = true, 5
		}
	}
	var cat combination.Combination
	var tb []int
	switch {
	case straight && flush:
		cat, tb = combination.CombinationStraightFlush, []int{high}
	case gs[0].c == 4:
		cat, tb = combination.CombinationFourOfAKind, []int{gs[0].r, gs[1].r}
	case gs[0].c == 3 && gs[1].c == 2:
		cat, tb = combination.CombinationFullHouse, []int{gs[0].r, gs[1].r}
	case flush:
		cat, tb = combination.CombinationFlush, s
	case straight:
		cat, tb = combination.CombinationStraight, []int{high}
	case gs[0].c == 3:
		cat, tb = combination.CombinationThreeOfAKind, []int{gs[0].r, gs[1].r, gs[2].r}
	case gs[0].c == 2 && gs[1].c == 2:
		cat, tb = combination.CombinationTwoPair, []int{gs[0].r, gs[1].r, gs[2].r}
	case gs[0].c == 2:
		cat, tb = combination.CombinationPair, []int{gs[0].r, gs[1].r, gs[2].r, gs[3].r}
	default:
		cat, tb = combination.CombinationHighCard, s
	}
	var k c10key
	for i, c := range table {
		if c == cat {
			k[0] = i
		}
	}
	for i, x := range tb {
		k[i+1] = x
	}
	return cat, k
}

func c10less(a, b c10key) bool {
	for i := range a {
		if a[i] != b[i] {
			return a[i] < b[i]
		}
	}
	return false
}

func c10subsets(n, k int) [][]int {
	var out [][]int
	var rec func(start int, cur []int)
	rec = func(start int, cur []int) {
		if len(cur) == k {
			out = append(out, append([]int{}, cur...))
			return
		}
		for i := start; i < n; i++ {
			rec(i+1, append(cur, i))
		}
	}
	rec(0, nil)
	return out
}

type c10fail struct {
	Hole     []string `json:"hole"`
	Board    []string `json:"board"`
	Required int      `json:"required_hole_cards"`
	Table    string   `json:"table"`
	Message  string   `json:"message"`
}

func c10check(hole, board []string, req int, table []combination.Combination, tname string) *c10fail {
	opts := NewStardardGameOptions()
	opts.HoleCardsCount = len(hole)
	opts.RequiredHoleCardsCount = req
	opts.CombinationPowers = table
	opts.Players = []*PlayerSetting{{Bankroll: 10, Positions: []string{"dealer", "sb"}}, {Bankroll: 10, Positions: []string{"bb"}}}
	g := NewGame(opts)
	gs := g.GetState()
	gs.Status.Board = board
	gs.Players[0].HoleCards = hole
	gs.Players[1].HoleCards = hole
	if err := g.UpdateCombinationOfAllPlayers(); err != nil {
		return &c10fail{hole, board, req, tname, "UpdateCombinationOfAllPlayers fails: " + err.Error()}
	}
	ci := gs.Players[0].Combination
	mk := func(msg string, a ...interface{}) *c10fail {
		return &c10fail{hole, board, req, tname, fmt.Sprintf(msg, a...)}
	}
	if len(ci.Cards) != 5 {
		return mk("reported hand has %d cards", len(ci.Cards))
	}
	// admissible: a selection of the player's own cards and the board, with exactly `req` hole cards when required
	used := map[string]int{}
	for _, c := range ci.Cards {
		used[c]++
	}
	nh := 0
	for _, c := range hole {
		if used[c] > 0 {
			nh++
			used[c]--
		}
	}
	for _, c := range board {
		if used[c] > 0 {
			used[c]--
		}
	}
	for c, k := range used {
		if k != 0 {
			return mk("reported card %s is not among the player's hole cards and the board (or is used twice)", c)
		}
	}
	if req > 0 && nh != req {
		return mk("reported hand uses %d hole cards, the variant requires exactly %d", nh, req)
	}
	cat, key := c10spec(ci.Cards, table)
	if combination.CombinationSymbol[cat] != ci.Type {
		return mk("reported category %s, the reported cards %v are a %s", ci.Type, ci.Cards, combination.CombinationSymbol[cat])
	}
	if uint64(ci.Power) != combination.CalculatePower(table, ci.Cards).Score {
		return mk("reported strength %d is not the strength of the reported cards (%d)", ci.Power, combination.CalculatePower(table, ci.Cards).Score)
	}
	// no admissible selection beats it
	best := c10key{}
	first := true
	consider := func(sel []string) {
		_, k := c10spec(sel, table)
		if first || c10less(best, k) {
			best, first = k, false
		}
	}
	if req == 0 {
		all := append(append([]string{}, hole...), board...)
		for _, ix := range c10subsets(len(all), 5) {
			var sel []string
			for _, i := range ix {
				sel = append(sel, all[i])
			}
			consider(sel)
		}
	} else {
		for _, hx := range c10subsets(len(hole), req) {
			for _, bx := range c10subsets(len(board), 5-req) {
				var sel []string
				for _, i := range hx {
					sel = append(sel, hole[i])
				}
				for _, i := range bx {
					sel = append(sel, board[i])
				}
				consider(sel)
			}
		}
	}
	if key != best {
		return mk("reported hand %v (key %v) is beaten by an admissible selection (key %v)", ci.Cards, key, best)
	}
	return nil
}

func TestVerifC10Bounded(t *testing.T) {
	seed, _ := strconv.ParseInt(os.Getenv("VERIF_SEED"), 10, 64)
	samples, _ := strconv.Atoi(os.Getenv("VERIF_C10_SAMPLES"))
	if samples == 0 {
		samples = 4000
	}
	var fail *c10fail
	positional := 0
	// (1) positional enumeration, complete for the property's domain
	for n := 0; n <= 10 && fail == nil; n++ {
		cards := make([]string, n)
		for i := range cards {
			cards[i] = fmt.Sprintf("X%d", i)
		}
		for k := 1; k <= 5; k++ {
			got := combination.GetPossibleCombinations(cards, k)
			positional++
			want := 1
			if n > k {
				want = len(c10subsets(n, k))
			}
			seen := map[string]bool{}
			for _, sel := range got {
				s := append([]string{}, sel...)
				sort.Strings(s)
				seen[fmt.Sprint(s)] = true
				if n > k && len(sel) != k {
					fail = &c10fail{Message: fmt.Sprintf("GetPossibleCombinations(%d cards, %d) returns a selection of %d cards", n, k, len(sel))}
				}
			}
			if len(got) != want || len(seen) != want {
				fail = &c10fail{Message: fmt.Sprintf("GetPossibleCombinations(%d cards, %d) returns %d selections (%d distinct), expected %d", n, k, len(got), len(seen), want)}
			}
		}
	}
	// (2) sampled deals
	rng := rand.New(rand.NewSource(seed + 1))
	done := 0
	var smp []interface{}
	for i := 0; i < samples && fail == nil; i++ {
		deck := NewStandardDeckCards()
		table, tname := combination.CombinationPowerStandard, "standard"
		if i%3 == 2 {
			deck = NewShortDeckCards()
			table, tname = combination.CombinationPowerShortDeck, "short-deck"
		}
		rng.Shuffle(len(deck), func(a, b int) { deck[a], deck[b] = deck[b], deck[a] })
		nh, req := 2, 0
		if i%2 == 1 {
			nh, req = 4, 2
		}
		nb := 3 + i%3
		hole, board := deck[:nh], deck[nh:nh+nb]
		fail = c10check(hole, board, req, table, tname)
		done++
		if len(smp) < 3 {
			smp = append(smp, map[string]interface{}{"hole": hole, "board": board, "required": req, "table": tname})
		}
	}
	rep := map[string]interface{}{"property": "C10", "cases": done + positional, "distinct_nontrivial": done, "positional_enumeration_checks": positional, "sampled_deals": done, "seed": seed, "samples": smp}
	if fail != nil {
		rep["failure"] = fail
		rep["message"] = fail.Message
	}
	b, _ := json.Marshal(rep)
	fmt.Println("VERIF-REPORT " + string(b))
	if fail != nil {
		t.Fatalf("C10 violated: %+v", *fail)
	}
}

func TestVerifC10Replay(t *testing.T) {
	path := os.Getenv("VERIF_REPLAY")
	if path == "" {
		t.Skip("no VERIF_REPLAY")
	}
	b, _ := os.ReadFile(path)
	var f c10fail
	json.Unmarshal(b, &f)
	if len(f.Hole) == 0 {
		t.Skip("positional failure: re-run the bounded check")
	}
	table := combination.CombinationPowerStandard
	if f.Table == "short-deck" {
		table = combination.CombinationPowerShortDeck
	}
	if fl := c10check(f.Hole, f.Board, f.Required, table, f.Table); fl != nil {
		t.Fatalf("C10 violated: %s", fl.Message)
	}
}
