package combination

// Exhaustive check for property C03 on the whole finite domain, run against the real code through
// `go test -overlay` by /verif/bin/check: every five-card hand of the 52-card deck (2,598,960) and of the 36-card
// deck (376,992), under both shipped ranking tables, is evaluated by the real CalculatePower and compared with an
// independent poker evaluator written from the rules: the category must match, and the score must be a strictly
// increasing function of the rules' strength key (same key <=> same score), which is exactly "for every pair of
// hands the higher score wins and equal scores tie". Short-deck A-6-7-8-9 is left out as the property says.

import (
	"encoding/json"
	"fmt"
	"os"
	"sort"
	"testing"
)

var c03suits = []string{"S", "H", "D", "C"}
var c03rankSym = map[int]string{2: "2", 3: "3", 4: "4", 5: "5", 6: "6", 7: "7", 8: "8", 9: "9", 10: "T", 11: "J", 12: "Q", 13: "K", 14: "A"}

type c03key [7]int // category position in the ranking table, then up to five tie-break ranks

func c03spec(ranks [5]int, suits [5]int, table []Combination) (Combination, c03key) {
	r := ranks[:]
	s := append([]int{}, r...)
	sort.Sort(sort.Reverse(sort.IntSlice(s)))
	flush := suits[0] == suits[1] && suits[1] == suits[2] && suits[2] == suits[3] && suits[3] == suits[4]
	cnt := map[int]int{}
	for _, x := range s {
		cnt[x]++
	}
	type grp struct{ c, r int }
	var gs []grp
	for rk, c := range cnt {
		gs = append(gs, grp{c, rk})
	}
	sort.Slice(gs, func(i, j int) bool {
		if gs[i].c != gs[j].c {
			return gs[i].c > gs[j].c
		}
		return gs[i].r > gs[j].r
	})
	straight, high := false, 0
	if len(gs) == 5 {
		if s[0]-s[4] == 4 {
			straight, high = true, s[0]
		} else if s[0] == 14 && s[1] == 5 && s[4] == 2 {
			straight, high = true, 5
		}
	}
	var cat Combination
	var tb []int
	switch {
	case straight && flush:
		cat, tb = CombinationStraightFlush, []int{high}
	case gs[0].c == 4:
		cat, tb = CombinationFourOfAKind, []int{gs[0].r, gs[1].r}
	case gs[0].c == 3 && gs[1].c == 2:
		cat, tb = CombinationFullHouse, []int{gs[0].r, gs[1].r}
	case flush:
		cat, tb = CombinationFlush, s
	case straight:
		cat, tb = CombinationStraight, []int{high}
	case gs[0].c == 3:
		cat, tb = CombinationThreeOfAKind, []int{gs[0].r, gs[1].r, gs[2].r}
	case gs[0].c == 2 && gs[1].c == 2:
		cat, tb = CombinationTwoPair, []int{gs[0].r, gs[1].r, gs[2].r}
	case gs[0].c == 2:
		cat, tb = CombinationPair, []int{gs[0].r, gs[1].r, gs[2].r, gs[3].r}
	default:
		cat, tb = CombinationHighCard, s
	}
	var k c03key
	for i, c := range table {
		if c == cat {
			k[0] = i
		}
	}
	for i, x := range tb {
		k[i+1] = x
	}
	return cat, k
}

type c03fail struct {
	Deck    int      `json:"deck"`
	Table   string   `json:"table"`
	Hand    []string `json:"hand"`
	Other   []string `json:"other_hand,omitempty"`
	Message string   `json:"message"`
}

func c03less(a, b c03key) bool {
	for i := range a {
		if a[i] != b[i] {
			return a[i] < b[i]
		}
	}
	return false
}

func c03run(minRank int, table []Combination, tname string) (int, *c03fail) {
	type card struct{ r, s int }
	var deck []card
	for s := 0; s < 4; s++ {
		for r := minRank; r <= 14; r++ {
			deck = append(deck, card{r, s})
		}
	}
	n := len(deck)
	type rec struct {
		key   c03key
		score uint64
		hand  [5]int
	}
	first := map[c03key]rec{}
	hands := 0
	sym := func(idx [5]int) []string {
		var out []string
		for _, i := range idx {
			out = append(out, c03suits[deck[i].s]+c03rankSym[deck[i].r])
		}
		return out
	}
	for a := 0; a < n; a++ {
		for b := a + 1; b < n; b++ {
			for c := b + 1; c < n; c++ {
				for d := c + 1; d < n; d++ {
					for e := d + 1; e < n; e++ {
						idx := [5]int{a, b, c, d, e}
						var ranks, suits [5]int
						for i, x := range idx {
							ranks[i], suits[i] = deck[x].r, deck[x].s
						}
						if minRank == 6 {
							// A-6-7-8-9 in the short deck is not fixed by the property
							s := append([]int{}, ranks[:]...)
							sort.Ints(s)
							if s[0] == 6 && s[1] == 7 && s[2] == 8 && s[3] == 9 && s[4] == 14 {
								continue
							}
						}
						hands++
						cat, key := c03spec(ranks, suits, table)
						ps := CalculatePower(table, sym(idx))
						if ps.Combination != cat {
							return hands, &c03fail{n, tname, sym(idx), nil, fmt.Sprintf("category %s, the rules say %s", CombinationSymbol[ps.Combination], CombinationSymbol[cat])}
						}
						if f, ok := first[key]; ok {
							if f.score != ps.Score {
								return hands, &c03fail{n, tname, sym(idx), sym(f.hand), fmt.Sprintf("hands that tie under the rules get scores %d and %d", ps.Score, f.score)}
							}
						} else {
							first[key] = rec{key, ps.Score, idx}
						}
					}
				}
			}
		}
	}
	var recs []rec
	for _, r := range first {
		recs = append(recs, r)
	}
	sort.Slice(recs, func(i, j int) bool { return c03less(recs[i].key, recs[j].key) })
	for i := 1; i < len(recs); i++ {
		if recs[i].score <= recs[i-1].score {
			return hands, &c03fail{n, tname, sym(recs[i].hand), sym(recs[i-1].hand), fmt.Sprintf("the first hand beats the second under the rules but scores %d <= %d", recs[i].score, recs[i-1].score)}
		}
	}
	return hands, nil
}

func TestVerifC03Exhaustive(t *testing.T) {
	total := 0
	var fail *c03fail
	classes := 0
	for _, d := range []struct {
		min  int
		tab  []Combination
		name string
	}{{2, CombinationPowerStandard, "standard"}, {2, CombinationPowerShortDeck, "short-deck"}, {6, CombinationPowerShortDeck, "short-deck"}, {6, CombinationPowerStandard, "standard"}} {
		if os.Getenv("VERIF_C03_QUICK") == "1" && d.min == 2 && d.name == "short-deck" {
			continue
		}
		h, f := c03run(d.min, d.tab, d.name)
		total += h
		classes++
		if f != nil {
			fail = f
			break
		}
	}
	rep := map[string]interface{}{"property": "C03", "cases": total, "distinct_nontrivial": total, "exhaustive": fail == nil, "deck_table_combinations": classes,
		"samples": []string{"SA SK SQ SJ ST under the standard table", "S5 H4 D3 C2 SA (wheel)", "S6 S7 S8 S9 ST in the short deck"}}
	if fail != nil {
		rep["failure"] = fail
		rep["message"] = fail.Message
	}
	b, _ := json.Marshal(rep)
	fmt.Println("VERIF-REPORT " + string(b))
	if fail != nil {
		t.Fatalf("C03 violated: %+v", *fail)
	}
}

func TestVerifC03Replay(t *testing.T) {
	path := os.Getenv("VERIF_REPLAY")
	if path == "" {
		t.Skip("no VERIF_REPLAY")
	}
	b, _ := os.ReadFile(path)
	var f c03fail
	json.Unmarshal(b, &f)
	tab := CombinationPowerStandard
	if f.Table == "short-deck" {
		tab = CombinationPowerShortDeck
	}
	parse := func(h []string) ([5]int, [5]int) {
		var r, s [5]int
		for i, c := range h {
			r[i] = CardRank[c[1:2]]
			for k, x := range c03suits {
				if x == c[0:1] {
					s[i] = k
				}
			}
		}
		return r, s
	}
	r1, s1 := parse(f.Hand)
	cat, k1 := c03spec(r1, s1, tab)
	p1 := CalculatePower(tab, f.Hand)
	if p1.Combination != cat {
		t.Fatalf("category %s, rules say %s", CombinationSymbol[p1.Combination], CombinationSymbol[cat])
	}
	if len(f.Other) == 5 {
		r2, s2 := parse(f.Other)
		_, k2 := c03spec(r2, s2, tab)
		p2 := CalculatePower(tab, f.Other)
		if (c03less(k2, k1) && !(p1.Score > p2.Score)) || (k1 == k2 && p1.Score != p2.Score) {
			t.Fatalf("order broken: %v scores %d, %v scores %d", f.Hand, p1.Score, f.Other, p2.Score)
		}
	}
}
