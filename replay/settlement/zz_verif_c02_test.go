package settlement

// Bounded stand-in for property C02 (and the settlement half of C01), run against the real code through
// `go test -overlay` by /verif/bin/check: every vector of contributions, fold flags and scores (with ties) for a
// small number of players is pushed through the real pot.LevelList -> settlement.Result pipeline exactly the
// way the engine's CalculateGameResults does it, and the result is compared with an oracle written from the
// property statement. Bounded check, not a proof.

import (
	"encoding/json"
	"fmt"
	"os"
	"strconv"
	"strings"
	"testing"

	"github.com/weedbox/pokerface/pot"
)

type c02case struct {
	Wagers []int64 `json:"wagers"`
	Folds  []bool  `json:"folds"`
	Scores []int   `json:"scores"`
}

type c02failure struct {
	Check string `json:"check"`
	Msg   string `json:"message"`
	Known bool   `json:"known"`
}

const bankroll = 1000

func c02run(c c02case) (*Result, []*pot.Pot) {
	ll := pot.NewLevelList()
	for i, w := range c.Wagers {
		ll.AddContributor(w, i, c.Folds[i])
	}
	pots := ll.GetPots()
	r := NewResult()
	for _, p := range pots {
		r.AddPot(p.Total, p.Levels)
	}
	for i := range c.Wagers {
		r.AddPlayer(i, bankroll)
		if c.Folds[i] {
			r.UpdateScore(i, 0)
		} else {
			r.UpdateScore(i, c.Scores[i])
		}
	}
	r.Calculate()
	return r, pots
}

// VERIF_C02_CHECKS (comma separated) restricts the oracle to the named checks: the chip-conservation half of this
// harness also stands in for the settlement part of C01.
func c02skip(name string) bool {
	allowed := os.Getenv("VERIF_C02_CHECKS")
	return allowed != "" && !strings.Contains(","+allowed+",", ","+name+",")
}

func c02oracle(c c02case) *c02failure {
	r, pots := c02run(c)
	n := len(c.Wagers)
	min := func(a, b int64) int64 {
		if a < b {
			return a
		}
		return b
	}
	changed := make([]int64, n)
	seen := make([]bool, n)
	var sum int64
	for _, p := range r.Players {
		if p.Idx < 0 || p.Idx >= n || seen[p.Idx] {
			if f := (&c02failure{"players", fmt.Sprintf("result lists player %d twice or out of range", p.Idx), false}); !c02skip(f.Check) {
				return f
			}
		}
		seen[p.Idx] = true
		changed[p.Idx] = p.Changed
		sum += p.Changed
		if p.Final != bankroll+p.Changed {
			if f := (&c02failure{"final", fmt.Sprintf("player %d: final %d != bankroll %d + change %d", p.Idx, p.Final, bankroll, p.Changed), false}); !c02skip(f.Check) {
				return f
			}
		}
		if p.Final < 0 {
			if f := (&c02failure{"final-negative", fmt.Sprintf("player %d: final stack %d", p.Idx, p.Final), false}); !c02skip(f.Check) {
				return f
			}
		}
	}
	for i := 0; i < n; i++ {
		if !seen[i] {
			if f := (&c02failure{"players", fmt.Sprintf("player %d missing from the result", i), false}); !c02skip(f.Check) {
				return f
			}
		}
	}
	if sum != 0 {
		if f := (&c02failure{"zero-sum", fmt.Sprintf("changes sum to %d", sum), false}); !c02skip(f.Check) {
			return f
		}
	}
	for i := 0; i < n; i++ {
		if changed[i] < -c.Wagers[i] {
			if f := (&c02failure{"loss-bound", fmt.Sprintf("player %d loses %d but put in only %d", i, -changed[i], c.Wagers[i]), false}); !c02skip(f.Check) {
				return f
			}
		}
		if c.Folds[i] && changed[i] > 0 {
			if f := (&c02failure{"folded-wins", fmt.Sprintf("folded player %d wins %d", i, changed[i]), false}); !c02skip(f.Check) {
				return f
			}
		}
		// nobody wins from a layer they did not pay into: at most own stake from each opponent
		var cap int64
		for j := 0; j < n; j++ {
			if j != i {
				cap += min(c.Wagers[j], c.Wagers[i])
			}
		}
		if changed[i] > cap {
			if f := (&c02failure{"gain-bound", fmt.Sprintf("player %d wins %d, more than its own stake from each opponent (%d)", i, changed[i], cap), false}); !c02skip(f.Check) {
				return f
			}
		}
	}
	// expected change by the rule: every layer goes to the best-ranked non-folded players who paid into it
	// (exact up to the placement of odd chips: compared per player within +-(number of layers))
	levels := map[int64]bool{}
	for _, w := range c.Wagers {
		levels[w] = true
	}
	// per published pot: winners are the best hands among the eligible players and split the pot equally
	if len(r.Pots) != len(pots) {
		if f := (&c02failure{"pots", fmt.Sprintf("%d pot results for %d pots", len(r.Pots), len(pots)), false}); !c02skip(f.Check) {
			return f
		}
	}
	for j, pr := range r.Pots {
		p := pots[j]
		best := -1
		for i := 0; i < n; i++ {
			if _, in := p.Contributors[i]; in && !c.Folds[i] && c.Scores[i] > best {
				best = c.Scores[i]
			}
		}
		if best < 0 {
			continue // nobody eligible: the layer goes back to those who paid it (covered by folded-wins / zero-sum)
		}
		var total int64
		minW, maxW := int64(1<<62), int64(-1)
		nw := 0
		for _, w := range pr.Winners {
			if w.Idx < 0 || w.Idx >= n {
				if f := (&c02failure{"winner-unknown", fmt.Sprintf("pot %d: unknown winner %d", j, w.Idx), false}); !c02skip(f.Check) {
					return f
				}
			}
			if c.Folds[w.Idx] {
				if f := (&c02failure{"winner-folded", fmt.Sprintf("pot %d: folded player %d is a winner", j, w.Idx), false}); !c02skip(f.Check) {
					return f
				}
			}
			if _, in := p.Contributors[w.Idx]; !in {
				if f := (&c02failure{"winner-not-contributor", fmt.Sprintf("pot %d: winner %d did not pay into it", j, w.Idx), false}); !c02skip(f.Check) {
					return f
				}
			}
			if c.Scores[w.Idx] != best {
				if f := (&c02failure{"winner-not-best", fmt.Sprintf("pot %d: winner %d has score %d, best eligible score is %d", j, w.Idx, c.Scores[w.Idx], best), false}); !c02skip(f.Check) {
					return f
				}
			}
			total += w.Withdraw
			if w.Withdraw < minW {
				minW = w.Withdraw
			}
			if w.Withdraw > maxW {
				maxW = w.Withdraw
			}
			nw++
		}
		_, _, _, _ = total, minW, maxW, nw
		// (The reported per-pot Withdraw figures are not compared: Update lists a winner only when it takes out
		// more than its own stake in a level, so they are not the shares. Shares are checked below on what every
		// player really takes out.)
	}
	// every tied winner's share of a pot is floor(T/k) or ceil(T/k): checked on the total each player takes out
	// (its change plus what it put in), which is observable for every player whether or not it is listed as a winner
	for i := 0; i < n; i++ {
		if c.Folds[i] {
			continue
		}
		var lo, hi, slack int64
		for _, p := range pots {
			if _, in := p.Contributors[i]; !in {
				continue
			}
			best, k := -1, int64(0)
			for q := 0; q < n; q++ {
				if _, in := p.Contributors[q]; in && !c.Folds[q] {
					if c.Scores[q] > best {
						best, k = c.Scores[q], 0
					}
					if c.Scores[q] == best {
						k++
					}
				}
			}
			if c.Scores[i] != best {
				continue
			}
			lo += p.Total / k
			hi += (p.Total + k - 1) / k
			if k >= 2 && len(p.Levels) >= 2 {
				slack += int64(len(p.Levels)) - 1 // region of the known finding F-TIE-SPLIT
			}
		}
		take := changed[i] + c.Wagers[i]
		if take < lo || take > hi {
			known := take >= lo-slack && take <= hi+slack
			if f := (&c02failure{"share", fmt.Sprintf("player %d takes %d out of the pots it wins; equal shares give between %d and %d", i, take, lo, hi), known}); !c02skip(f.Check) {
				return f
			}
		}
	}
	return nil
}

func envInt(name string, def int) int {
	if v, err := strconv.Atoi(os.Getenv(name)); err == nil {
		return v
	}
	return def
}

func TestVerifC02Bounded(t *testing.T) {
	maxPlayers := envInt("VERIF_C02_PLAYERS", 4)
	maxAmount := int64(envInt("VERIF_C02_AMOUNT", 3))
	// the amounts tried: 0..maxAmount, or an explicit (sparse) list VERIF_C02_AMOUNTS=0,1,2,3,5
	var amounts []int64
	for a := int64(0); a <= maxAmount; a++ {
		amounts = append(amounts, a)
	}
	if l := os.Getenv("VERIF_C02_AMOUNTS"); l != "" {
		amounts = nil
		for _, f := range strings.Split(l, ",") {
			if v, err := strconv.ParseInt(strings.TrimSpace(f), 10, 64); err == nil {
				amounts = append(amounts, v)
				if v > maxAmount {
					maxAmount = v
				}
			}
		}
	}
	maxScore := envInt("VERIF_C02_SCORES", 2)
	cases, nontrivial, knownHits := 0, 0, 0
	var samples []c02case
	var knownExample *c02case
	knownMsg := ""
	var failure *c02case
	var fail *c02failure
	for n := 2; n <= maxPlayers && failure == nil; n++ {
		w := make([]int64, n)
		f := make([]bool, n)
		s := make([]int, n)
		var rec func(i int)
		rec = func(i int) {
			if failure != nil {
				return
			}
			if i == n {
				c := c02case{append([]int64{}, w...), append([]bool{}, f...), append([]int{}, s...)}
				cases++
				lv := map[int64]bool{}
				for _, x := range w {
					lv[x] = true
				}
				if len(lv) >= 2 {
					nontrivial++
					if len(samples) < 3 && n >= 3 && cases%97 == 0 {
						samples = append(samples, c)
					}
				}
				if fl := c02oracle(c); fl != nil {
					if fl.Known {
						knownHits++
						if knownExample == nil {
							knownExample, knownMsg = &c, fl.Msg
						}
						return
					}
					failure, fail = &c, fl
				}
				return
			}
			for _, a := range amounts {
				for _, fl := range []bool{false, true} {
					top := maxScore
					if fl {
						top = 1 // the score of a folded player is ignored
					}
					for sc := 1; sc <= top; sc++ {
						w[i], f[i], s[i] = a, fl, sc
						rec(i + 1)
					}
				}
			}
		}
		rec(0)
	}
	// canary for the known finding: the smallest input known to show it
	canary := c02case{[]int64{1, 2, 3, 4, 4}, []bool{true, true, true, false, false}, []int{1, 1, 1, 2, 2}}
	cfl := c02oracle(canary)
	rep := map[string]interface{}{"property": "C02", "cases": cases, "distinct_nontrivial": nontrivial, "max_players": maxPlayers, "max_amount": maxAmount,
		"max_score": maxScore, "samples": samples, "known_hits": knownHits}
	if cfl != nil && cfl.Known {
		rep["known_findings"] = []map[string]interface{}{{"id": "F-TIE-SPLIT", "input": canary, "message": cfl.Msg}}
	} else if cfl != nil && failure == nil {
		failure, fail = &canary, cfl
	}
	if knownExample != nil {
		rep["known_example"] = knownExample
		rep["known_message"] = knownMsg
	}
	if failure != nil {
		rep["failure"] = failure
		rep["message"] = fail.Check + ": " + fail.Msg
	}
	b, _ := json.Marshal(rep)
	fmt.Println("VERIF-REPORT " + string(b))
	if failure != nil {
		t.Fatalf("C02 violated: %s on %+v", fail.Msg, *failure)
	}
}

func TestVerifC02Replay(t *testing.T) {
	path := os.Getenv("VERIF_REPLAY")
	if path == "" {
		t.Skip("no VERIF_REPLAY")
	}
	b, err := os.ReadFile(path)
	if err != nil {
		t.Fatal(err)
	}
	var c c02case
	if err := json.Unmarshal(b, &c); err != nil {
		t.Fatal(err)
	}
	if fl := c02oracle(c); fl != nil {
		t.Fatalf("C02 violated (%s): %s", fl.Check, fl.Msg)
	}
}
