package main

import (
	"flag"
	"fmt"
	"os"
	"regexp"
	"sort"
	"strings"
)

type Finding struct {
	Bounded    string   `json:"bounded,omitempty"` // finding of a bounded stand-in (the harness decides the region)
	ID         string   `json:"id"`
	Property   string   `json:"property"`
	Properties []string `json:"properties"`
	Obligation string   `json:"obligation"`
	Except     string   `json:"except"`
	At         string   `json:"at,omitempty"` // "site": the except predicate is stated over the call-site state in the callee's parameter names
	What       string   `json:"what"`
	Status     string   `json:"status"`
}

func main() {
	if len(os.Args) < 2 {
		fmt.Println("usage: govc func|check|ssa ...")
		os.Exit(2)
	}
	switch os.Args[1] {
	case "func":
		cmdFunc(os.Args[2:])
	case "lemma":
		cmdLemma(os.Args[2:])
	case "ssa":
		cmdSSA(os.Args[2:])
	case "check":
		os.Exit(cmdCheck(os.Args[2:]))
	case "replay":
		os.Exit(cmdReplay(os.Args[2:]))
	default:
		fmt.Println("unknown command")
		os.Exit(2)
	}
}

func cmdSSA(args []string) {
	P, err := loadProgram("/repo")
	if err != nil {
		panic(err)
	}
	var keys []string
	for k := range P.Funcs {
		keys = append(keys, k)
	}
	sort.Strings(keys)
	for _, k := range keys {
		for _, a := range args {
			if strings.Contains(k, a) {
				P.Funcs[k].WriteTo(os.Stdout)
			}
		}
	}
	if len(args) == 0 {
		for _, k := range keys {
			fmt.Println(k)
		}
	}
}

func cmdFunc(args []string) {
	fs := flag.NewFlagSet("func", flag.ExitOnError)
	repo := fs.String("repo", "/repo", "")
	to := fs.Int("t", 10, "timeout")
	only := fs.String("only", "", "obligation regexp")
	verbose := fs.Bool("v", false, "")
	stats := fs.Bool("stats", false, "")
	model := fs.Bool("model", false, "print counterexample models")
	noretry := fs.Bool("noretry", false, "development: no retry portfolio for undecided obligations")
	fs.Parse(args)
	P, err := loadProgram(*repo)
	if err != nil {
		panic(err)
	}
	if err := P.loadContracts(); err != nil {
		fmt.Println("contract error:", err)
		os.Exit(2)
	}
	opts := &VerifyOpts{WorkDir: "/verif/.work/func", TimeoutS: *to, Agree: 1, NoRetry: *noretry}
	if kf, err := loadFindings("/verif/known_findings.json"); err == nil {
		for _, f := range kf.Findings {
			if f.Status == "open" && f.Bounded == "" {
				opts.Findings = append(opts.Findings, f)
			}
		}
	}
	if *only != "" {
		opts.OnlyObl = regexp.MustCompile(*only)
	}
	for _, pat := range fs.Args() {
		var keys []string
		for k := range P.Funcs {
			if k == pat || strings.HasSuffix(k, "."+pat) {
				keys = append(keys, k)
			}
		}
		sort.Strings(keys)
		for _, k := range keys {
			r := P.verifyFunc(k, opts)
			fmt.Printf("== %s (%d ms)\n", k, r.Millis)
			if r.Err != nil {
				fmt.Println("   ERROR:", r.Err)
				continue
			}
			for _, or := range r.Results {
				if or == nil || or.Status == "skipped" {
					continue
				}
				if *verbose || (or.Status != "discharged" && or.Status != "cover-ok" && or.Status != "cover-notrefuted") {
					if or.Status == "known" {
						fmt.Printf("   known         %s (%s)\n", or.Obl.Name, or.Obl.Finding.ID)
						continue
					}
					fmt.Printf("   %-13s %-60s %s [%s %dms] %s\n", or.Status, or.Obl.Name, or.Obl.Pos, or.Solve.Backend, or.Solve.Millis, or.Obl.Src)
					if *model && len(or.Model) > 0 {
						var ks []string
						for k := range or.Model {
							ks = append(ks, k)
						}
						sort.Strings(ks)
						for _, k := range ks {
							if !strings.Contains(k, "[") || strings.Contains(k, "[0]") || strings.Contains(k, "[1]") {
								fmt.Printf("        %s = %s\n", k, or.Model[k])
							}
						}
					}
				}
			}
			n := 0
			for _, or := range r.Results {
				if or == nil {
					fmt.Println("   (nil result)")
					continue
				}
				if or.Status == "discharged" || or.Status == "cover-ok" || or.Status == "cover-notrefuted" || or.Status == "known" {
					n++
				}
			}
			fmt.Printf("   %d/%d ok; inlined=%v used=%v\n", n, len(r.Results), r.Inlined, r.Used)
			if *stats {
				by := map[string]int{}
				var tot int64
				type it struct {
					ms   int64
					name string
				}
				var its []it
				for _, or := range r.Results {
					if or == nil {
						continue
					}
					by[or.Solve.Backend]++
					tot += or.Solve.Millis
					its = append(its, it{or.Solve.Millis, or.Obl.Name + " [" + or.Solve.Backend + "] " + or.Obl.Kind})
				}
				sort.Slice(its, func(i, j int) bool { return its[i].ms > its[j].ms })
				fmt.Println("   backends:", by, "total solver ms:", tot)
				for i := 0; i < 15 && i < len(its); i++ {
					fmt.Println("   ", its[i].ms, its[i].name)
				}
			}
			if *verbose {
				for _, n := range r.Notes {
					fmt.Println("   note:", n)
				}
			}
		}
	}
}

func cmdLemma(args []string) {
	P, err := loadProgram("/repo")
	if err != nil {
		panic(err)
	}
	if err := P.loadContracts(); err != nil {
		fmt.Println("contract error:", err)
		os.Exit(2)
	}
	opts := &VerifyOpts{WorkDir: "/verif/.work/lemma", TimeoutS: 10, Agree: 1}
	for i, ld := range P.Lemmas {
		match := len(args) == 0
		for _, a := range args {
			if strings.Contains(ld.Name, a) {
				match = true
			}
		}
		if !match {
			continue
		}
		r := P.verifyLemma(i, opts)
		fmt.Printf("== lemma %s.%s (%d ms)\n", ld.Pkg, ld.Name, r.Millis)
		if r.Err != nil {
			fmt.Println("   ERROR:", r.Err)
			continue
		}
		for _, or := range r.Results {
			fmt.Printf("   %-13s %s [%s %dms]\n", or.Status, or.Obl.Name, or.Solve.Backend, or.Solve.Millis)
		}
	}
}
