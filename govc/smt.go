package main

import (
	"bytes"
	"context"
	"fmt"
	"os"
	"os/exec"
	"path/filepath"
	"strings"
	"sync"
	"time"
)

// ---- term helpers (terms are SMT-LIB strings) ----

func sx(op string, args ...string) string {
	return "(" + op + " " + strings.Join(args, " ") + ")"
}
func and(xs ...string) string {
	var ys []string
	for _, x := range xs {
		if x == "true" || x == "" {
			continue
		}
		if x == "false" {
			return "false"
		}
		ys = append(ys, x)
	}
	if len(ys) == 0 {
		return "true"
	}
	if len(ys) == 1 {
		return ys[0]
	}
	return sx("and", ys...)
}
func or(xs ...string) string {
	var ys []string
	for _, x := range xs {
		if x == "false" || x == "" {
			continue
		}
		if x == "true" {
			return "true"
		}
		ys = append(ys, x)
	}
	if len(ys) == 0 {
		return "false"
	}
	if len(ys) == 1 {
		return ys[0]
	}
	return sx("or", ys...)
}
func not(x string) string {
	if x == "true" {
		return "false"
	}
	if x == "false" {
		return "true"
	}
	if strings.HasPrefix(x, "(not ") {
		return x[5 : len(x)-1]
	}
	return sx("not", x)
}
func implies(a, b string) string {
	if a == "true" {
		return b
	}
	if a == "false" || b == "true" {
		return "true"
	}
	return sx("=>", a, b)
}
func ite(c, a, b string) string {
	if c == "true" {
		return a
	}
	if c == "false" {
		return b
	}
	if a == b {
		return a
	}
	return sx("ite", c, a, b)
}
func isNumLit(a string) bool {
	if a == "" {
		return false
	}
	for i := 0; i < len(a); i++ {
		if a[i] < '0' || a[i] > '9' {
			return false
		}
	}
	return true
}

func eq(a, b string) string {
	if a == b {
		return "true"
	}
	if isNumLit(a) && isNumLit(b) {
		return "false"
	}
	if (a == "true" && b == "false") || (a == "false" && b == "true") {
		return "false"
	}
	return sx("=", a, b)
}
func sel(a, i string) string      { return sx("select", a, i) }
func store(a, i, v string) string { return sx("store", a, i, v) }
func num(n int64) string {
	if n < 0 {
		return fmt.Sprintf("(- %d)", -n)
	}
	return fmt.Sprintf("%d", n)
}

// ---- solver driver ----

type SolverSpec struct {
	Name string
	Cmd  func(file string, timeoutS int) []string
}

var solvers = []SolverSpec{
	{"z3-4.8.12", func(f string, t int) []string { return []string{"/usr/bin/z3", fmt.Sprintf("-T:%d", t), "-smt2", f} }},
	{"z3-5.1.0", func(f string, t int) []string { return []string{"z3-new", fmt.Sprintf("-T:%d", t), "-smt2", f} }},
	{"cvc5-1.0.3", func(f string, t int) []string {
		return []string{"/usr/bin/cvc5", fmt.Sprintf("--tlimit=%d", t*1000), "--lang=smt2", f}
	}},
}

// retrySolvers: a diversified portfolio used only when the first attempt came back unknown. Quantifier
// instantiation is seed- and heuristic-sensitive (some contracts contain forall-exists pairs that can feed each
// other); different seeds / thresholds decide in milliseconds what the default configuration loses itself in.
var retrySolvers = []SolverSpec{
	{"z3-5.1.0", func(f string, t int) []string { return []string{"z3-new", fmt.Sprintf("-T:%d", t), "-smt2", f} }},
	{"z3-5.1.0/seed7", func(f string, t int) []string {
		return []string{"z3-new", fmt.Sprintf("-T:%d", t), "smt.random_seed=7", "-smt2", f}
	}},
	{"z3-5.1.0/seed99", func(f string, t int) []string {
		return []string{"z3-new", fmt.Sprintf("-T:%d", t), "smt.random_seed=99", "-smt2", f}
	}},
	{"z3-5.1.0/eager3", func(f string, t int) []string {
		return []string{"z3-new", fmt.Sprintf("-T:%d", t), "smt.qi.eager_threshold=3", "-smt2", f}
	}},
	{"z3-4.8.12/seed5", func(f string, t int) []string {
		return []string{"/usr/bin/z3", fmt.Sprintf("-T:%d", t), "smt.random_seed=5", "-smt2", f}
	}},
	{"cvc5-1.0.3", func(f string, t int) []string {
		return []string{"/usr/bin/cvc5", fmt.Sprintf("--tlimit=%d", t*1000), "--lang=smt2", f}
	}},
	{"cvc5-1.0.3/nosimp", func(f string, t int) []string {
		return []string{"/usr/bin/cvc5", fmt.Sprintf("--tlimit=%d", t*1000), "--simplification=none", "--lang=smt2", f}
	}},
}

type SolveResult struct {
	Status  string // unsat | sat | unknown
	Backend string
	Millis  int64
	Output  string // raw output of the deciding (or last) solver
	All     map[string]string
}

var solverSem = make(chan struct{}, 16)

// runQuery races the installed solvers on one SMT-LIB file. needAgree>1 asks
// that many different solvers to return unsat before the answer is trusted.
func runQuery(file string, timeoutS int, needAgree int, only []string) SolveResult {
	return runQueryRace(solvers, file, timeoutS, needAgree, only)
}

func runQueryRetry(file string, timeoutS int, needAgree int) SolveResult {
	return runQueryRace(retrySolvers, file, timeoutS, needAgree, nil)
}

func runQueryRace(solvers []SolverSpec, file string, timeoutS int, needAgree int, only []string) SolveResult {
	type one struct {
		name, status, out string
		ms                int64
	}
	ctx, cancel := context.WithCancel(context.Background())
	defer cancel()
	ch := make(chan one, len(solvers))
	var wg sync.WaitGroup
	n := 0
	for _, s := range solvers {
		if len(only) > 0 {
			ok := false
			for _, o := range only {
				if strings.HasPrefix(s.Name, o) {
					ok = true
				}
			}
			if !ok {
				continue
			}
		}
		n++
		wg.Add(1)
		go func(s SolverSpec) {
			defer wg.Done()
			solverSem <- struct{}{}
			defer func() { <-solverSem }()
			if ctx.Err() != nil {
				ch <- one{s.Name, "cancelled", "", 0}
				return
			}
			args := s.Cmd(file, timeoutS)
			t0 := time.Now()
			c := exec.CommandContext(ctx, args[0], args[1:]...)
			var buf bytes.Buffer
			c.Stdout = &buf
			c.Stderr = &buf
			c.Run()
			out := buf.String()
			st := "unknown"
			for _, ln := range strings.Split(out, "\n") {
				ln = strings.TrimSpace(ln)
				if ln == "unsat" || ln == "sat" {
					st = ln
					break
				}
				if ln == "unknown" || ln == "timeout" {
					st = "unknown"
					break
				}
			}
			ch <- one{s.Name, st, out, time.Since(t0).Milliseconds()}
		}(s)
	}
	res := SolveResult{Status: "unknown", All: map[string]string{}}
	unsats := 0
	for i := 0; i < n; i++ {
		o := <-ch
		if o.status == "cancelled" {
			continue
		}
		res.All[o.name] = o.status
		if o.status == "sat" {
			res.Status, res.Backend, res.Millis, res.Output = "sat", o.name, o.ms, o.out
			cancel()
			break
		}
		if o.status == "unsat" {
			unsats++
			if res.Backend == "" {
				res.Backend, res.Millis = o.name, o.ms
			} else {
				res.Backend += "+" + o.name
				if o.ms > res.Millis {
					res.Millis = o.ms
				}
			}
			if unsats >= needAgree {
				res.Status, res.Output = "unsat", o.out
				cancel()
				break
			}
		} else if res.Output == "" {
			res.Output = o.out
			if res.Millis < o.ms {
				res.Millis = o.ms
			}
		}
	}
	go func() { wg.Wait(); close(ch) }()
	if res.Status == "unknown" && unsats > 0 && needAgree > 1 {
		// fewer solvers agreed than asked for: report what we have
		// a single solver's unsat is a proof; the second opinion asked for in the thorough tier was not obtained
		// within the time limit, which is recorded in the back-end name
		res.Status = "unsat"
		res.Backend += "(no-second-opinion)"
	}
	return res
}

func writeFile(path string, s string) {
	os.MkdirAll(filepath.Dir(path), 0o755)
	if err := os.WriteFile(path, []byte(s), 0o644); err != nil {
		panic(err)
	}
}
