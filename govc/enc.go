package main

import (
	"fmt"
	"go/constant"
	"go/token"
	"go/types"
	"sort"
	"strings"
	"sync"

	"golang.org/x/tools/go/ssa"
)

// ---------------------------------------------------------------------------
// Encoder: one instance per verified function (or lemma)
// ---------------------------------------------------------------------------

type Obl struct {
	Name    string
	Kind    string
	Goal    string
	Guard   string
	NLines  int
	Pos     string
	Tags    []string
	Extra   []string // extra hypotheses
	Group   string   // obligations split from one clause share a group: the conjunction is tried first
	Except  string   // known finding: SMT term of the recorded failing region (over the entry state)
	Finding *Finding
	Site    *SpecCtx // state at the obligation (call site): known-finding predicates may be stated over it
	Src     string   // human-readable text of what is being proved
	// postconditions: the path conditions of the function's return sites (mutually exclusive, together the guard).
	// An obligation the solvers do not decide over the merged exit state is tried again once per return site.
	RetCases []string
}

type Enc struct {
	lemmaLine  map[int]string
	opaqueFun  map[string][2]string
	opaqueNow  bool
	qmu        sync.Mutex
	alias      map[string]string
	watchQ     []watchItem
	globSlices []string
	symAt      map[string]int // symbol -> number of lines when it was introduced
	hints      bool           // emit array-store instantiation hints (contract clause "hints")
	strFacts   map[string]bool // string-predicate facts already assumed (function|constant)
	opaqueMul  bool           // contract clause "opaquemul": a*b of two non-constant program integers is the uninterpreted umul(a, b)
	P          *Program
	decls      []string
	declared   map[string]string
	lines      []string
	obls       []*Obl
	n          int
	notes      map[string]bool // assumptions / trusted things touched
	used       map[string]bool // contracts used at call sites
	inlined    map[string]bool
	strUsed    bool
	maxDepth   int
	noSafety   bool
	top        *Frame
	names      map[string]int
	watch      []WatchTerm // terms whose model values are wanted for replay
	serial     int
	refSerial  map[string]int
	dry        int // >0 while dry-running a loop body to find its write set
	caseKey    string
	topNames   map[string]Val
	h0         *Heap
	modWhole   map[string]string
	modCells   []cellMod
	lockCheck  bool            // lock discipline obligations are generated
	lockHeld   string          // "" (not held) | "r" | "w"
	protected  map[string]bool // heap arrays protected by the guarding mutex
	funDefs    map[string]*funInfo
	lemmaSeen  map[string]int
	usedLemmas map[string]bool
	lemmaLimit int // while proving lemma number i only lemmas declared before it may be instantiated (-1 = all)
}

type WatchTerm struct {
	Label string
	Term  string
}

func newEnc(P *Program) *Enc {
	e := &Enc{P: P, declared: map[string]string{}, notes: map[string]bool{}, used: map[string]bool{}, inlined: map[string]bool{}, maxDepth: 14, names: map[string]int{}, refSerial: map[string]int{}, symAt: map[string]int{}, funDefs: map[string]*funInfo{}, lemmaSeen: map[string]int{}, usedLemmas: map[string]bool{}, lemmaLimit: -1}
	e.decls = append(e.decls, "(declare-fun gstr.len (Int) Int)", "(declare-fun gstr.sub (Int Int Int) Int)", "(declare-fun gstr.cat (Int Int) Int)")
	e.declare("alloc@0", "Int")
	e.lines = append(e.lines, "(assert (>= |alloc@0| 0))")
	return e
}

func q(name string) string { return "|" + name + "|" }

func (e *Enc) declare(name, sort string) string {
	if s, ok := e.declared[name]; ok {
		if s != sort {
			panic(fmt.Sprintf("sort clash for %s: %s vs %s", name, s, sort))
		}
		return q(name)
	}
	e.declared[name] = sort
	e.decls = append(e.decls, fmt.Sprintf("(declare-const %s %s)", q(name), sort))
	if strings.HasSuffix(name, "@0") {
		// pre-state: the heap is closed (stored references point to allocated objects or are nil)
		if d, ok := refArrReg.Load(strings.TrimSuffix(name, "@0")); ok {
			e.decls = append(e.decls, "(assert "+closureFact(q(name), d.(int), q("alloc@0"))+")")
		}
		if strings.HasPrefix(name, "ML_") {
			e.decls = append(e.decls, "(assert "+mapLenFact(q(name))+")")
		}
		if d, ok := lenArrReg.Load(strings.TrimSuffix(name, "@0")); ok {
			e.decls = append(e.decls, "(assert "+lenFact(q(name), d.(int))+")")
		}
		if strings.HasPrefix(name, "MD_") {
			ml := e.declare("ML_"+strings.TrimPrefix(name, "MD_"), "(Array Int Int)")
			e.decls = append(e.decls, fmt.Sprintf("(assert (forall ((r Int) (k Int)) (! (=> (select (select %s r) k) (>= (select %s r) 1)) :pattern ((select (select %s r) k)))))", q(name), ml, q(name)))
		}
	}
	return q(name)
}

func (e *Enc) uniq(hint string) string {
	e.names[hint]++
	if e.names[hint] == 1 {
		return hint
	}
	return fmt.Sprintf("%s~%d", hint, e.names[hint])
}

func (e *Enc) fresh(hint, sort string) string {
	s := e.declare(e.uniq(hint), sort)
	e.symAt[s] = len(e.lines)
	return s
}

// define introduces a name for a term (keeps queries small through sharing).
func (e *Enc) define(hint, sort, term string) string {
	if len(term) < 40 && !strings.Contains(term, " ") {
		return term
	}
	n := e.uniq(hint)
	e.declared[n] = sort
	e.lines = append(e.lines, fmt.Sprintf("(define-fun %s () %s %s)", q(n), sort, term))
	e.symAt[q(n)] = len(e.lines)
	return q(n)
}

func (e *Enc) assume(guard, fact string) {
	if fact == "true" {
		return
	}
	e.lines = append(e.lines, "(assert "+implies(guard, fact)+")")
}

func (e *Enc) note(s string) { e.notes[s] = true }

func (e *Enc) oblige(name, kind, guard, goal, pos, src string, tags []string) *Obl {
	if goal == "true" || guard == "false" {
		// trivially discharged: still recorded so that counts are honest
	}
	o := &Obl{Name: name, Kind: kind, Goal: goal, Guard: guard, NLines: len(e.lines), Pos: pos, Tags: tags, Src: src}
	e.obls = append(e.obls, o)
	return o
}

// heap array access ---------------------------------------------------------

func (e *Enc) harr(h *Heap, name, sort string) string {
	if t, ok := h.m[name]; ok {
		return t
	}
	if h.formal != nil {
		if _, ok := h.formal.used[name]; !ok {
			h.formal.used[name] = sort
			h.formal.order = append(h.formal.order, name)
		}
		if h.formal.declare {
			return e.declare(h.formal.prefix+name, sort)
		}
		return q(h.formal.prefix + name)
	}
	return e.declare(name+"@0", sort)
}

func (e *Enc) hsort(name string) string {
	s, ok := e.declared[name+"@0"]
	if !ok {
		panic("unknown heap array " + name)
	}
	return s
}

// hset replaces a heap array; base is the ref term that was written ("" = anywhere).
func (e *Enc) hset(h *Heap, name, sort, term string, base string) {
	e.declare(name+"@0", sort)
	h.m[name] = e.define(name, sort, term)
	h.mark(name, e.refSerial[base])
	h.markBase(name, base)
}

func (e *Enc) newRef(h *Heap, hint string) string {
	n := e.uniq(hint)
	e.declared[n] = "Int"
	e.lines = append(e.lines, fmt.Sprintf("(define-fun %s () Int %s)", q(n), sx("+", h.alloc, "1")))
	r := q(n)
	e.symAt[r] = len(e.lines)
	h.alloc = r
	e.serial++
	e.refSerial[r] = e.serial
	return r
}

// names of heap arrays ---------------------------------------------------------

// refArrReg: heap arrays whose cells hold references (value = number of index dimensions)
var refArrReg sync.Map

// lenArrReg: heap arrays holding slice lengths (never negative)
var lenArrReg sync.Map

func regRef(name string, c Comp, dims int) string {
	if c.Ref {
		refArrReg.Store(name, dims)
	}
	if strings.HasSuffix(c.Suffix, "#len") {
		lenArrReg.Store(name, dims)
	}
	return name
}

func lenFact(H string, dims int) string {
	if dims == 1 {
		return fmt.Sprintf("(forall ((r Int)) (! (>= (select %s r) 0) :pattern ((select %s r))))", H, H)
	}
	return fmt.Sprintf("(forall ((r Int) (i Int)) (! (>= (select (select %s r) i) 0) :pattern ((select (select %s r) i))))", H, H)
}

func fieldArr(root types.Type, path []int, c Comp) string {
	return regRef("F_"+typeKey(root)+pathName(root, path)+c.Suffix, c, 1)
}
func elemArr(elem types.Type, path []int, c Comp) string {
	return regRef("E_"+typeKey(elem)+pathName(elem, path)+c.Suffix, c, 2)
}
func cellArr(t types.Type, path []int, c Comp) string {
	return regRef("C_"+typeKey(t)+pathName(t, path)+c.Suffix, c, 1)
}

// closureFact: every reference stored in heap array H points to an allocated object (or is nil).
func closureFact(H string, dims int, alloc string) string {
	if dims == 1 {
		return fmt.Sprintf("(forall ((r Int)) (! (and (<= 0 (select %s r)) (<= (select %s r) %s)) :pattern ((select %s r))))", H, H, alloc, H)
	}
	return fmt.Sprintf("(forall ((r Int) (i Int)) (! (and (<= 0 (select (select %s r) i)) (<= (select (select %s r) i) %s)) :pattern ((select (select %s r) i))))", H, H, alloc, H)
}

func (e *Enc) assumeClosure(name, H, alloc string) {
	if d, ok := refArrReg.Load(name); ok {
		e.lines = append(e.lines, "(assert "+closureFact(H, d.(int), alloc)+")")
	}
	if strings.HasPrefix(name, "ML_") {
		e.lines = append(e.lines, "(assert "+mapLenFact(H)+")")
	}
	if d, ok := lenArrReg.Load(name); ok {
		e.lines = append(e.lines, "(assert "+lenFact(H, d.(int))+")")
	}
}

// every map has a non-negative length
func mapLenFact(H string) string {
	return fmt.Sprintf("(forall ((r Int)) (! (>= (select %s r) 0) :pattern ((select %s r))))", H, H)
}

func (e *Enc) loadAt(h *Heap, a *Addr) Val {
	t := typeAtPath(a.Root, a.Path)
	if a.K == aGlobal {
		return e.loadGlobal(h, a.G)
	}
	if a.N >= 0 && len(a.Path) == 0 {
		panic(unsupported("load of whole array value"))
	}
	cs := flatten(t)
	ts := make([]string, len(cs))
	for i, c := range cs {
		switch a.K {
		case aField:
			ts[i] = sel(e.harr(h, fieldArr(a.Root, a.Path, c), arrSort('F', c.Sort)), a.Base)
		case aCell:
			ts[i] = sel(e.harr(h, cellArr(a.Root, a.Path, c), arrSort('C', c.Sort)), a.Base)
		case aElem:
			ts[i] = sel(sel(e.harr(h, elemArr(a.Root, a.Path, c), arrSort('E', c.Sort)), a.Base), a.Idx)
		}
	}
	v, _ := fromComps(t, ts)
	return v
}

func (e *Enc) storeAt(h *Heap, a *Addr, v Val) {
	t := typeAtPath(a.Root, a.Path)
	if a.K == aGlobal {
		panic(unsupported("store to global %s", a.G.Name()))
	}
	cs := flatten(t)
	vs := comps(v)
	if len(vs) != len(cs) {
		panic(fmt.Sprintf("storeAt: component mismatch %d vs %d for %v", len(vs), len(cs), t))
	}
	for i, c := range cs {
		switch a.K {
		case aField:
			n := fieldArr(a.Root, a.Path, c)
			s := arrSort('F', c.Sort)
			old := e.harr(h, n, s)
			e.hset(h, n, s, store(old, a.Base, vs[i]), a.Base)
			e.storeHint(h.m[n], old, a.Base)
		case aCell:
			n := cellArr(a.Root, a.Path, c)
			s := arrSort('C', c.Sort)
			e.hset(h, n, s, store(e.harr(h, n, s), a.Base, vs[i]), a.Base)
		case aElem:
			n := elemArr(a.Root, a.Path, c)
			s := arrSort('E', c.Sort)
			H := e.harr(h, n, s)
			e.hset(h, n, s, store(H, a.Base, store(sel(H, a.Base), a.Idx, vs[i])), a.Base)
			e.storeHint(h.m[n], H, a.Base)
		}
	}
}

func (e *Enc) loadGlobal(h *Heap, g *ssa.Global) Val {
	t := g.Type().(*types.Pointer).Elem()
	name := "G_" + g.Pkg.Pkg.Name() + "." + g.Name()
	if types.TypeString(t, nil) == "error" {
		e.declareErrGlobals()
		return scalar(t, q(name))
	}
	switch t.Underlying().(type) {
	case *types.Map:
		if e.P.globalTable(g) == nil {
			panic(unsupported("global map %s is not a constant table", g.Name()))
		}
		c := e.declare(name, "Int")
		return Val{T: t, K: kScalar, S: c, Glob: g}
	case *types.Slice:
		tab := e.P.globalTable(g)
		if tab == nil {
			panic(unsupported("global slice %s is not a constant table", g.Name()))
		}
		if _, seen := e.declared[name]; !seen {
			// the backing array of a package-level table exists before the function runs: a store through an
			// alias of it is a write to pre-existing memory (frame obligations) and never to a fresh object
			e.declare("alloc@0", "Int")
			a := e.declare(name, "Int")
			e.decls = append(e.decls, fmt.Sprintf("(assert (and (< 0 %s) (<= %s |alloc@0|)))", a, a))
			for _, o := range e.globSlices {
				e.decls = append(e.decls, fmt.Sprintf("(assert (distinct %s %s))", a, o))
			}
			e.globSlices = append(e.globSlices, a)
		}
		return Val{T: t, K: kSlice, Arr: e.declare(name, "Int"), Len: num(int64(len(tab.Keys))), Glob: g}
	}
	panic(unsupported("load of global %s", g.Name()))
}

// ghostObj: the one object holding the ghost variables of a package; it exists before the function runs.
func (e *Enc) ghostObj(pkg string) string {
	name := "ghost!" + pkg
	if _, seen := e.declared[name]; !seen {
		e.declare("alloc@0", "Int")
		a := e.declare(name, "Int")
		e.decls = append(e.decls, fmt.Sprintf("(assert (and (< 0 %s) (<= %s |alloc@0|)))", a, a))
	}
	return e.declare(name, "Int")
}

var errGlobalsDeclared = "errglobals"

func (e *Enc) declareErrGlobals() {
	if _, ok := e.declared[errGlobalsDeclared]; ok {
		return
	}
	e.declared[errGlobalsDeclared] = "-"
	var ns []string
	for _, g := range e.P.ErrGlobals {
		n := e.declare("G_"+g.Pkg.Pkg.Name()+"."+g.Name(), "Int")
		ns = append(ns, n)
		// error values are negative: never clash with a heap reference
		e.lines = append(e.lines, fmt.Sprintf("(assert (< %s 0))", n))
	}
	if len(ns) > 1 {
		e.lines = append(e.lines, "(assert (distinct "+strings.Join(ns, " ")+"))")
	}
}

// typed range assumptions ---------------------------------------------------------

func intRange(b *types.Basic) (string, string, bool) {
	switch b.Kind() {
	case types.Int, types.Int64:
		return "(- 9223372036854775808)", "9223372036854775807", true
	case types.Int32:
		return "(- 2147483648)", "2147483647", true
	case types.Int16:
		return "(- 32768)", "32767", true
	case types.Int8:
		return "(- 128)", "127", true
	case types.Uint, types.Uint64, types.Uintptr:
		return "0", "18446744073709551615", true
	case types.Uint32:
		return "0", "4294967295", true
	case types.Uint16:
		return "0", "65535", true
	case types.Uint8:
		return "0", "255", true
	}
	return "", "", false
}

func (e *Enc) typeFacts(v Val, h *Heap) string {
	switch v.K {
	case kScalar:
		switch u := v.T.Underlying().(type) {
		case *types.Basic:
			if lo, hi, ok := intRange(u); ok {
				return and(sx("<=", lo, v.S), sx("<=", v.S, hi))
			}
			if u.Info()&types.IsString != 0 {
				return sx(">=", v.S, "0")
			}
		case *types.Pointer, *types.Map:
			return and(sx("<=", "0", v.S), sx("<=", v.S, h.alloc))
		case *types.Interface:
			if _, isErr := e.isErrorType(v.T); isErr {
				return "true"
			}
			return and(sx("<=", "0", v.S), sx("<=", v.S, h.alloc))
		}
	case kRat:
		return sx(">", v.Den, "0")
	case kSlice:
		return and(sx("<=", "0", v.Arr), sx("<=", v.Arr, h.alloc), sx("<=", "0", v.Len), sx("<=", v.Len, "1152921504606846976"))
	case kStruct, kTuple:
		var fs []string
		for _, f := range v.Fs {
			fs = append(fs, e.typeFacts(f, h))
		}
		return and(fs...)
	}
	return "true"
}

func (e *Enc) isErrorType(t types.Type) (types.Type, bool) {
	return t, types.TypeString(t, nil) == "error"
}

// freshVal makes an unconstrained value of type t (named components).
func (e *Enc) freshVal(hint string, t types.Type) Val {
	cs := flatten(t)
	ts := make([]string, len(cs))
	for i, c := range cs {
		ts[i] = e.fresh(hint+c.Suffix, c.Sort)
	}
	v, _ := fromComps(t, ts)
	return v
}

// nameVal gives names to the components of a value (so that facts can be stated about them once).
func (e *Enc) nameVal(hint string, v Val) Val {
	switch v.K {
	case kScalar, kSlice, kStruct, kTuple:
		cs := flatten(v.T)
		ts := comps(v)
		if len(cs) != len(ts) {
			return v
		}
		for i := range ts {
			ts[i] = e.define(hint+cs[i].Suffix, cs[i].Sort, ts[i])
		}
		nv, _ := fromComps(v.T, ts)
		nv.Glob = v.Glob
		return nv
	}
	return v
}

func (e *Enc) constTermP(c constant.Value, t types.Type) string { return e.P.constTerm(c, t) }

func (P *Program) constTerm(c constant.Value, t types.Type) string {
	switch c.Kind() {
	case constant.Bool:
		if constant.BoolVal(c) {
			return "true"
		}
		return "false"
	case constant.String:
		return num(int64(P.internString(constant.StringVal(c))))
	case constant.Int:
		s := c.ExactString()
		if strings.HasPrefix(s, "-") {
			return "(- " + s[1:] + ")"
		}
		return s
	case constant.Float:
		f, _ := constant.Float64Val(c)
		s := fmt.Sprintf("%f", f)
		if strings.HasPrefix(s, "-") {
			return "(- " + s[1:] + ")"
		}
		return s
	}
	panic(unsupported("constant kind %v", c.Kind()))
}

// ---------------------------------------------------------------------------
// Frames
// ---------------------------------------------------------------------------

type edgeInfo struct {
	reach string
	heap  *Heap
}

type retInfo struct {
	reach string
	heap  *Heap
	vals  []Val
}

type dbgRef struct {
	block *ssa.BasicBlock
	idx   int
	val   ssa.Value
	addr  bool
}

type loopInfo struct {
	header *ssa.BasicBlock
	blocks map[*ssa.BasicBlock]bool
	ord    int
	spec   *LoopSpec
	// state captured at the cut, for inv-keep obligations
	iterName string
	allocIn  string
	heapIn   *Heap
	frameInv []frameInvItem
	backOrd  map[int]int // back-edge source block -> ordinal (stable under block renumbering)
}

type Frame struct {
	e        *Enc
	fn       *ssa.Function
	prefix   string
	env      map[ssa.Value]Val
	spec     *FuncSpec
	isTop    bool
	parent   *Frame
	depth    int
	callpath string
	entry    *Heap
	params   []Val
	rets     []retInfo
	defers   []func(st *BState)
	edges    map[[2]int]edgeInfo
	loops    map[*ssa.BasicBlock]*loopInfo
	dbg      map[string][]dbgRef
	dryStack []*loopDry
	cbSelf   *Val // receiver object of the callback field being called (bound to "self" in callback contracts)
	ord      map[string]int
	curBlock *ssa.BasicBlock
	stack    []string // function keys on the inline stack
}

type BState struct {
	reach string
	heap  *Heap
}

func (fr *Frame) oname(kind string) string {
	fr.ord[kind]++
	return fmt.Sprintf("%s#%s%s:%d", fr.e.topKey(), fr.callpath, kind, fr.ord[kind])
}

func (fr *Frame) pos(p token.Pos) string {
	if !p.IsValid() {
		return ""
	}
	ps := fr.e.P.Fset.Position(p)
	return fmt.Sprintf("%s:%d", strings.TrimPrefix(ps.Filename, fr.e.P.Repo+"/"), ps.Line)
}

func (fr *Frame) vname(v ssa.Value) string {
	return fr.prefix + v.Name()
}

func (fr *Frame) val(v ssa.Value) Val {
	switch x := v.(type) {
	case *ssa.Const:
		if x.Value == nil {
			return zeroVal(x.Type())
		}
		if isFloat(x.Type()) {
			n, d := constant.Num(x.Value), constant.Denom(x.Value)
			if n.Kind() != constant.Int || d.Kind() != constant.Int {
				panic(unsupported("float constant %v", x.Value))
			}
			return Val{T: x.Type(), K: kRat, Num: fr.e.constTermP(n, types.Typ[types.Int]), Den: fr.e.constTermP(d, types.Typ[types.Int])}
		}
		return scalar(x.Type(), fr.e.constTermP(x.Value, x.Type()))
	case *ssa.Global:
		return Val{T: x.Type(), K: kAddr, A: &Addr{K: aGlobal, G: x, N: -1}}
	case *ssa.Function:
		return Val{T: x.Type(), K: kClosure, Fn: x}
	case *ssa.Builtin:
		panic(unsupported("builtin %s used as value", x.Name()))
	}
	if r, ok := fr.env[v]; ok {
		return r
	}
	panic(unsupported("value %s (%T) of %s used before definition (irreducible flow?)", v.Name(), v, fr.fn.Name()))
}

// ---------------------------------------------------------------------------
// CFG analysis
// ---------------------------------------------------------------------------

func (fr *Frame) analyzeLoops() []*ssa.BasicBlock {
	fn := fr.fn
	fr.loops = map[*ssa.BasicBlock]*loopInfo{}
	// back edges: u->h with h dominating u
	for _, u := range fn.Blocks {
		for _, h := range u.Succs {
			if h.Dominates(u) {
				li := fr.loops[h]
				if li == nil {
					li = &loopInfo{header: h, blocks: map[*ssa.BasicBlock]bool{h: true}}
					fr.loops[h] = li
				}
				// natural loop: all blocks that reach u without passing through h
				var stack []*ssa.BasicBlock
				if !li.blocks[u] {
					li.blocks[u] = true
					stack = append(stack, u)
				}
				for len(stack) > 0 {
					b := stack[len(stack)-1]
					stack = stack[:len(stack)-1]
					for _, p := range b.Preds {
						if !li.blocks[p] {
							li.blocks[p] = true
							stack = append(stack, p)
						}
					}
				}
			}
		}
	}
	// ordinals: headers sorted by source position of the loop statement
	var hs []*ssa.BasicBlock
	for h := range fr.loops {
		hs = append(hs, h)
	}
	sort.Slice(hs, func(i, j int) bool { return loopPos(fr.loops[hs[i]]) < loopPos(fr.loops[hs[j]]) })
	// a contract that carries invariants for more loops than the function has was written for another shape of the
	// function (a loop was moved out or removed): its loop ordinals no longer bind
	{
		var sp *FuncSpec
		if fr.spec != nil && fr.isTop {
			sp = fr.spec
		} else {
			sp = fr.e.P.Specs[funcKey(fr.fn)]
		}
		if sp != nil {
			for n, ls := range sp.Loops {
				if n > len(hs) && ls != nil && len(ls.Invariants) > 0 {
					panic(specErr("the contract carries invariants for loop %d but the function has %d loop(s): the loop ordinals no longer bind", n, len(hs)))
				}
			}
		}
	}
	for i, h := range hs {
		fr.loops[h].ord = i + 1
		if fr.spec != nil && fr.isTop {
			fr.loops[h].spec = fr.spec.Loops[i+1]
		} else if sp := fr.e.P.Specs[funcKey(fr.fn)]; sp != nil {
			fr.loops[h].spec = sp.Loops[i+1]
		}
	}
	// topological order ignoring back edges (reverse post-order)
	seen := map[*ssa.BasicBlock]bool{}
	var post []*ssa.BasicBlock
	var dfs func(b *ssa.BasicBlock)
	dfs = func(b *ssa.BasicBlock) {
		seen[b] = true
		for _, s := range b.Succs {
			if s.Dominates(b) { // back edge
				continue
			}
			if !seen[s] {
				dfs(s)
			}
		}
		post = append(post, b)
	}
	dfs(fn.Blocks[0])
	for i, j := 0, len(post)-1; i < j; i, j = i+1, j-1 {
		post[i], post[j] = post[j], post[i]
	}
	return post
}

func loopPos(li *loopInfo) token.Pos {
	best := token.Pos(1 << 40)
	for b := range li.blocks {
		for _, in := range b.Instrs {
			if _, isDbg := in.(*ssa.DebugRef); isDbg {
				continue
			}
			if p := in.Pos(); p.IsValid() && p < best {
				best = p
			}
		}
	}
	return best
}

// ---------------------------------------------------------------------------
// running a function body
// ---------------------------------------------------------------------------

func (e *Enc) newFrame(fn *ssa.Function, parent *Frame, args []Val, heap *Heap) *Frame {
	fr := &Frame{e: e, fn: fn, env: map[ssa.Value]Val{}, parent: parent, entry: heap,
		edges: map[[2]int]edgeInfo{}, dbg: map[string][]dbgRef{}, ord: map[string]int{}}
	if parent != nil {
		fr.depth = parent.depth + 1
		fr.stack = append(append([]string{}, parent.stack...), funcKey(fn))
	} else {
		fr.stack = []string{funcKey(fn)}
	}
	e.names["frame"]++
	if parent != nil {
		fr.prefix = fmt.Sprintf("%s.%d!", fn.Name(), e.names["frame"])
	}
	fr.params = args
	for i, p := range fn.Params {
		fr.env[p] = args[i]
	}
	return fr
}

func (fr *Frame) run(reach string) {
	_ = fr.e
	fn := fr.fn
	if fn.Blocks == nil {
		panic(unsupported("function %s has no body", fn.Name()))
	}
	if fn.Recover != nil {
		// recover blocks are only reached by panics, which are proved absent
	}
	order := fr.analyzeLoops()
	for _, b := range order {
		fr.curBlock = b
		var st BState
		if b.Index == 0 {
			st = BState{reach: reach, heap: fr.entry.clone()}
		} else {
			var ins []edgeInfo
			var inPreds []*ssa.BasicBlock
			for _, p := range b.Preds {
				if b.Dominates(p) {
					continue // back edge
				}
				if ei, ok := fr.edges[[2]int{p.Index, b.Index}]; ok && ei.reach != "false" {
					ins = append(ins, ei)
					inPreds = append(inPreds, p)
				}
			}
			if len(ins) == 0 {
				continue // unreachable
			}
			st = fr.merge(b, ins)
			// phis (non-loop-header)
			if fr.loops[b] == nil {
				for _, in := range b.Instrs {
					phi, ok := in.(*ssa.Phi)
					if !ok {
						break
					}
					fr.env[phi] = fr.phiVal(phi, b, inPreds, ins)
				}
			} else {
				fr.cutLoop(b, inPreds, ins, &st)
			}
		}
		for idx, in := range b.Instrs {
			if _, ok := in.(*ssa.Phi); ok {
				continue
			}
			fr.instr(in, idx, &st)
			if st.reach == "false" {
				break
			}
		}
	}
}

func (fr *Frame) merge(b *ssa.BasicBlock, ins []edgeInfo) BState {
	e := fr.e
	if len(ins) == 1 {
		return BState{reach: ins[0].reach, heap: ins[0].heap.clone()}
	}
	var rs []string
	for _, i := range ins {
		rs = append(rs, i.reach)
	}
	reach := e.define(fmt.Sprintf("%sR%d", fr.prefix, b.Index), "Bool", or(rs...))
	h := &Heap{m: map[string]string{}, dirty: map[string]int{}, lock: ins[0].heap.lock}
	for _, i := range ins {
		for k, v := range i.heap.dirty {
			h.mark(k, v)
		}
		for k, s := range i.heap.bases {
			for b := range s {
				h.markBase(k, b)
			}
		}
		if i.heap.lock != h.lock {
			h.lock = ""
		}
	}
	names := map[string]bool{}
	for _, i := range ins {
		for k := range i.heap.m {
			names[k] = true
		}
	}
	var ks []string
	for k := range names {
		ks = append(ks, k)
	}
	sort.Strings(ks)
	for _, k := range ks {
		srt := e.hsort(k)
		t := e.harr(ins[len(ins)-1].heap, k, srt)
		for j := len(ins) - 2; j >= 0; j-- {
			t = ite(ins[j].reach, e.harr(ins[j].heap, k, srt), t)
		}
		if t != e.harr(fr.entry, k, srt) || true {
			h.m[k] = e.define(k, srt, t)
		}
	}
	a := ins[len(ins)-1].heap.alloc
	for j := len(ins) - 2; j >= 0; j-- {
		a = ite(ins[j].reach, ins[j].heap.alloc, a)
	}
	h.alloc = e.define("alloc", "Int", a)
	return BState{reach: reach, heap: h}
}

func (fr *Frame) phiVal(phi *ssa.Phi, b *ssa.BasicBlock, preds []*ssa.BasicBlock, ins []edgeInfo) Val {
	e := fr.e
	// map pred -> edge value
	var vals []Val
	for _, p := range preds {
		for k, bp := range b.Preds {
			if bp == p {
				vals = append(vals, fr.val(phi.Edges[k]))
				break
			}
		}
	}
	if len(vals) == 1 {
		return vals[0]
	}
	if vals[0].K == kAddr || vals[0].K == kClosure || vals[0].K == kIter {
		// all must be identical descriptors
		for _, v := range vals[1:] {
			if v.K != vals[0].K || (v.K == kAddr && !addrEqual(v.A, vals[0].A)) || (v.K == kIter && v.It != vals[0].It) || (v.K == kClosure && v.Fn != vals[0].Fn) {
				panic(unsupported("phi of address values %s", phi.Name()))
			}
		}
		return vals[0]
	}
	cs := flatten(phi.Type())
	all := make([][]string, len(vals))
	for i, v := range vals {
		all[i] = comps(v)
	}
	ts := make([]string, len(cs))
	for c := range cs {
		t := all[len(vals)-1][c]
		for j := len(vals) - 2; j >= 0; j-- {
			t = ite(ins[j].reach, all[j][c], t)
		}
		ts[c] = e.define(fr.vname(phi)+cs[c].Suffix, cs[c].Sort, t)
	}
	v, _ := fromComps(phi.Type(), ts)
	return v
}

// setEdges records the outgoing edges of the current block.
func (fr *Frame) setEdge(from, to *ssa.BasicBlock, reach string, h *Heap) {
	if to.Dominates(from) {
		// back edge: loop invariant must be re-established
		fr.backEdge(from, to, reach, h)
		return
	}
	fr.edges[[2]int{from.Index, to.Index}] = edgeInfo{reach: reach, heap: h}
}

func (e *Enc) topKey() string {
	if e.caseKey != "" {
		return strings.Replace(e.caseKey, "#case", "@case", 1)
	}
	return funcKey(e.top.fn)
}

// watchParams registers the terms whose model values describe the pre-state reachable from the parameters.
func (e *Enc) watchParams() {
	if e.watch != nil || e.topNames == nil {
		return
	}
	seen := map[string]bool{}
	var names []string
	for n := range e.topNames {
		names = append(names, n)
	}
	sort.Strings(names)
	done := map[string]bool{}
	for _, n := range names {
		v := e.topNames[n]
		k := fmt.Sprint(comps2(v))
		if done[k] {
			continue
		}
		done[k] = true
		func() {
			defer func() { recover() }()
			e.watchVal(n, v, e.h0, 0, seen)
		}()
	}
	// breadth first: what is close to the parameters is read back before the watch budget runs out
	for len(e.watchQ) > 0 {
		q := e.watchQ[0]
		e.watchQ = e.watchQ[1:]
		func() {
			defer func() { recover() }()
			e.watchVal(q.label, q.v, q.h, q.depth, seen)
		}()
	}
}

type watchItem struct {
	label string
	v     Val
	h     *Heap
	depth int
}

func (e *Enc) watchLater(label string, v Val, h *Heap, depth int) {
	e.watchQ = append(e.watchQ, watchItem{label, v, h, depth})
}

func comps2(v Val) []string {
	defer func() { recover() }()
	return comps(v)
}

func (e *Enc) watchVal(label string, v Val, h *Heap, depth int, seen map[string]bool) {
	if depth > 7 || len(e.watch) > 1500 {
		return
	}
	switch v.K {
	case kScalar:
		ct := e.P.concreteOf(v.T)
		if nt, st := namedStruct(ct); nt != nil {
			if _, isPtr := ct.Underlying().(*types.Pointer); isPtr {
				e.watch = append(e.watch, WatchTerm{label + "@ref", v.S})
				key := typeKey(nt) + "|" + v.S
				if seen[key] {
					return
				}
				seen[key] = true
				for i := 0; i < st.NumFields(); i++ {
					f := st.Field(i)
					if _, isFn := f.Type().Underlying().(*types.Signature); isFn {
						continue
					}
					if f.Type().String() == "sync.RWMutex" {
						continue
					}
					fv := e.loadAt(h, &Addr{K: aField, Base: v.S, Root: nt, Path: []int{i}, N: -1})
					e.watchLater(label+"."+f.Name(), fv, h, depth+1)
				}
				return
			}
		}
		if _, ok := v.T.Underlying().(*types.Basic); ok {
			e.watch = append(e.watch, WatchTerm{label, v.S})
		} else if mt, ok := v.T.Underlying().(*types.Map); ok && v.Glob == nil {
			// maps: the entries at small integer keys / at the string parameters of the function
			e.watch = append(e.watch, WatchTerm{label + "@ref", v.S})
			key := "map|" + typeKey(mt) + "|" + v.S
			if seen[key] {
				return
			}
			seen[key] = true
			var keys [][2]string // (label part, SMT term)
			if kb, ok := mt.Key().Underlying().(*types.Basic); ok && kb.Info()&types.IsInteger != 0 {
				for k := 0; k < 9; k++ {
					keys = append(keys, [2]string{fmt.Sprint(k), num(int64(k))})
				}
			} else if ok && kb.Info()&types.IsString != 0 {
				var ns []string
				for n := range e.topNames {
					ns = append(ns, n)
				}
				sort.Strings(ns)
				for _, n := range ns {
					if tv := e.topNames[n]; tv.K == kScalar && tv.T != nil && isString(tv.T) {
						keys = append(keys, [2]string{"$" + n, tv.S})
					}
				}
			}
			dom := e.harr(h, mapDom(mt), arrSort('D', ""))
			for _, kk := range keys {
				e.watch = append(e.watch, WatchTerm{label + "{" + kk[0] + "}?", sel(sel(dom, v.S), kk[1])})
				e.watch = append(e.watch, WatchTerm{label + "{" + kk[0] + "}key", kk[1]})
				cs := flatten(mt.Elem())
				ts := make([]string, len(cs))
				for i, cc := range cs {
					ts[i] = sel(sel(e.harr(h, mapVal(mt, cc), arrSort('V', cc.Sort)), v.S), kk[1])
				}
				ev, _ := fromComps(mt.Elem(), ts)
				e.watchLater(label+"{"+kk[0]+"}", ev, h, depth+1)
			}
		} else {
			e.watch = append(e.watch, WatchTerm{label + "@ref", v.S})
		}
	case kStruct:
		st := v.T.Underlying().(*types.Struct)
		for i, f := range v.Fs {
			e.watchVal(label+"."+st.Field(i).Name(), f, h, depth, seen)
		}
	case kSlice:
		e.watch = append(e.watch, WatchTerm{label + "#len", v.Len})
		et := v.T.Underlying().(*types.Slice).Elem()
		n := 9
		if depth >= 4 {
			n = 8
		}
		for i := 0; i < n; i++ {
			ev := e.loadAt(h, &Addr{K: aElem, Base: v.Arr, Idx: num(int64(i)), Root: et, N: -1})
			e.watchLater(fmt.Sprintf("%s[%d]", label, i), ev, h, depth+1)
		}
	}
}

// lock discipline -----------------------------------------------------------

func (e *Enc) setupLocks(spec *FuncSpec) {
	if !spec.Locks && !spec.Locked {
		return
	}
	e.protected = map[string]bool{}
	for _, g := range e.P.Guards {
		if g.Pkg != spec.Pkg {
			continue
		}
		for _, it := range g.Items {
			for _, ns := range e.heapNamesUnder(g.Pkg, it) {
				e.protected[ns[0]] = true
			}
		}
	}
	if len(e.protected) == 0 {
		return
	}
	e.lockCheck = true
	if spec.Locked {
		e.lockHeld = "w"
	}
	e.h0.lock = e.lockHeld
}

// lockAccess emits the lock-discipline obligation for one access to a guarded heap array.
func (fr *Frame) lockAccess(arr string, write bool, pos token.Pos, st *BState) {
	e := fr.e
	if !e.lockCheck || e.dry > 0 || !e.protected[arr] {
		return
	}
	ok := st.heap.lock == "w" || (!write && st.heap.lock == "r")
	goal := "false"
	if ok {
		goal = "true"
	}
	what := "read"
	if write {
		what = "write"
	}
	e.oblige(fr.oname("lock"), "lock", st.reach, goal, fr.pos(pos), "lock discipline: "+what+" of "+arr+" happens with the guarding mutex held", nil)
}

func (fr *Frame) lockAddr(a *Addr, write bool, pos token.Pos, st *BState) {
	if !fr.e.lockCheck || a == nil || a.K == aGlobal {
		return
	}
	t := typeAtPath(a.Root, a.Path)
	for _, c := range flatten(t) {
		switch a.K {
		case aField:
			fr.lockAccess(fieldArr(a.Root, a.Path, c), write, pos, st)
		case aElem:
			fr.lockAccess(elemArr(a.Root, a.Path, c), write, pos, st)
		}
	}
}

// storeHint: instantiation hint (a consequence of the array theory): what was known about the cells of the
// old heap array carries over to the new one. Only emitted when hints are enabled for the function.
func (e *Enc) storeHint(nw, old, at string) {
	if !e.hints || nw == old || !strings.HasPrefix(nw, "|") {
		return
	}
	e.lines = append(e.lines, fmt.Sprintf("(assert (forall ((r Int)) (! (=> (not (= r %s)) (= (select %s r) (select %s r))) :pattern ((select %s r)))))", at, nw, old, old))
}
