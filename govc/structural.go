package main

import (
	"fmt"
	"go/types"
	"reflect"
	"sort"
	"strings"

	"golang.org/x/tools/go/ssa"
)

// Structural obligations: invariants of data-structure declarations and of parameter flow that a contract states
// once for a whole type / family of functions and that are decided on the typed program itself (no solver).
//
//	//@ jsonclosed <Type> except pkg.T.f, pkg.T.g props Cxx
//	    every field of every struct reachable from <Type> (through pointers, slices, arrays, maps) inside the
//	    module is carried by encoding/json (exported, not tagged json:"-"), except the listed fields
//	//@ onlypassedto <callee> <Recv> <param type> props Cxx
//	    in every method of <Recv>, a parameter of the given type is used for nothing but being handed to <callee>
type StructDef struct {
	Pkg   string
	Kind  string
	Args  []string
	Exc   map[string]bool
	Props []string
	File  string
	Line  int
}

func parseStructDirective(pkg, kw, text, file string, line int) (*StructDef, error) {
	sd := &StructDef{Pkg: pkg, Kind: kw, Exc: map[string]bool{}, File: file, Line: line}
	if k := strings.Index(text, " props "); k >= 0 {
		sd.Props = strings.Fields(text[k+7:])
		text = text[:k]
	}
	if k := strings.Index(text, " except "); k >= 0 {
		for _, x := range strings.Split(text[k+8:], ",") {
			if x = strings.TrimSpace(x); x != "" {
				sd.Exc[x] = true
			}
		}
		text = text[:k]
	}
	sd.Args = strings.Fields(text)
	if len(sd.Args) == 0 {
		return nil, fmt.Errorf("%s:%d: %s needs arguments", file, line, kw)
	}
	return sd, nil
}

func (P *Program) verifyStructural(prop string) *FuncResult {
	res := &FuncResult{Key: "structural"}
	add := func(name, src, pos string, ok bool, why string) {
		o := &Obl{Name: name, Kind: "struct", Src: src, Pos: pos}
		r := &OblResult{Obl: o, Status: "discharged", Solve: SolveResult{Status: "unsat", Backend: "govc-structural"}, Func: "structural"}
		if !ok {
			r.Status = "refuted"
			r.Solve = SolveResult{Status: "sat", Backend: "govc-structural", Output: why}
			o.Src = src + " -- " + why
		}
		res.Results = append(res.Results, r)
	}
	for _, sd := range P.Structs {
		has := false
		for _, p := range sd.Props {
			if p == prop {
				has = true
			}
		}
		if !has {
			continue
		}
		switch sd.Kind {
		case "jsonclosed":
			root := P.parseType(sd.Pkg, sd.Args[0])
			seen := map[types.Type]bool{}
			usedExc := map[string]bool{}
			var walk func(t types.Type)
			walk = func(t types.Type) {
				if seen[t] {
					return
				}
				seen[t] = true
				switch u := t.(type) {
				case *types.Pointer:
					walk(u.Elem())
				case *types.Slice:
					walk(u.Elem())
				case *types.Array:
					walk(u.Elem())
				case *types.Map:
					walk(u.Key())
					walk(u.Elem())
				case *types.Named:
					if u.Obj().Pkg() == nil || !strings.HasPrefix(u.Obj().Pkg().Path(), modPath) {
						return
					}
					st, ok := u.Underlying().(*types.Struct)
					if !ok {
						walk(u.Underlying())
						return
					}
					for i := 0; i < st.NumFields(); i++ {
						f := st.Field(i)
						fname := u.Obj().Pkg().Name() + "." + u.Obj().Name() + "." + f.Name()
						tag := reflect.StructTag(st.Tag(i)).Get("json")
						carried := f.Exported() && tag != "-"
						pos := P.Fset.Position(f.Pos())
						ps := fmt.Sprintf("%s:%d", relPath(P.Repo, pos.Filename), pos.Line)
						if sd.Exc[fname] {
							usedExc[fname] = true
							add(fmt.Sprintf("%s.%s#jsonclosed:%s", sd.Pkg, sd.Args[0], fname), "field "+fname+" is declared as not serialized (listed exception: derived data, re-established before it is read)", ps, !carried, "the field is now carried by encoding/json: the exception list in the contract is out of date (harmless)")
							// an exception that became serialized is fine for the property: report as discharged
							if carried {
								res.Results[len(res.Results)-1].Status = "discharged"
								res.Results[len(res.Results)-1].Solve = SolveResult{Status: "unsat", Backend: "govc-structural"}
							}
							if carried {
								walk(f.Type())
							}
							continue
						}
						add(fmt.Sprintf("%s.%s#jsonclosed:%s", sd.Pkg, sd.Args[0], fname), "field "+fname+" is carried by encoding/json (exported, not tagged json:\"-\")", ps, carried,
							"the field is part of the state reachable from "+sd.Args[0]+" but is not serialized, so a game rebuilt from JSON loses it")
						walk(f.Type())
					}
				}
			}
			walk(root)
		case "onlypassedto":
			// Args: callee, receiver type name, parameter type string
			if len(sd.Args) < 3 {
				continue
			}
			callee, recv, ptype := sd.Args[0], sd.Args[1], sd.Args[2]
			var keys []string
			for k := range P.Funcs {
				if strings.HasPrefix(k, sd.Pkg+".("+recv+").") || strings.HasPrefix(k, sd.Pkg+".(*"+strings.TrimPrefix(recv, "*")+").") {
					keys = append(keys, k)
				}
			}
			sort.Strings(keys)
			for _, k := range keys {
				fn := P.Funcs[k]
				for _, par := range fn.Params {
					if types.TypeString(par.Type(), func(p *types.Package) string { return p.Name() }) != ptype {
						continue
					}
					ok, why := true, ""
					if par.Referrers() != nil {
						for _, ref := range *par.Referrers() {
							if _, isDbg := ref.(*ssa.DebugRef); isDbg {
								continue
							}
							call, isCall := ref.(ssa.CallInstruction)
							if !isCall || call.Common().StaticCallee() == nil || call.Common().StaticCallee().Name() != callee {
								ok = false
								why = fmt.Sprintf("parameter %s is also used by: %s", par.Name(), ref.String())
							}
						}
					}
					pos := P.Fset.Position(fn.Pos())
					add(fmt.Sprintf("%s#onlypassedto:%s:%s", k, callee, par.Name()), fmt.Sprintf("the %s handed to %s is used for nothing but %s(%s)", ptype, fn.Name(), callee, par.Name()), fmt.Sprintf("%s:%d", relPath(P.Repo, pos.Filename), pos.Line), ok, why)
				}
			}
		}
	}
	if len(res.Results) == 0 {
		return nil
	}
	return res
}

func relPath(repo, p string) string {
	return strings.TrimPrefix(strings.TrimPrefix(p, repo), "/")
}
