package main

import (
	"encoding/json"
	"flag"
	"fmt"
	"os"
	"os/exec"
	"path/filepath"
	"sort"
	"strconv"
	"strings"
	"sync"
	"time"
)

type Evidence struct {
	PropertyID  string                 `json:"property_id"`
	Tier        string                 `json:"tier"`
	Seed        int                    `json:"seed"`
	Level       string                 `json:"level"`
	Coverage    map[string]interface{} `json:"coverage"`
	Assumptions []string               `json:"assumptions"`
	WallS       float64                `json:"wall_s"`
	Violations  int                    `json:"violations"`
}

type KnownFindings struct {
	Findings []*Finding `json:"findings"`
	Fixed    []string   `json:"fixed"`
}

func loadFindings(path string) (*KnownFindings, error) {
	kf := &KnownFindings{}
	b, err := os.ReadFile(path)
	if err != nil {
		if os.IsNotExist(err) {
			return kf, nil
		}
		return nil, err
	}
	if err := json.Unmarshal(b, kf); err != nil {
		return nil, err
	}
	return kf, nil
}

func (f *Finding) appliesTo(prop string) bool {
	if f.Property == prop {
		return true
	}
	for _, p := range f.Properties {
		if p == prop {
			return true
		}
	}
	return false
}

type checkRun struct {
	bounded  []*BoundedResult
	repo     string
	prop     string
	tier     string
	P        *Program
	opts     *VerifyOpts
	results  map[string]*FuncResult
	order    []string
	findings *KnownFindings
}

func hasProp(sp *FuncSpec, prop string) bool {
	for _, p := range sp.Props {
		if p == prop {
			return true
		}
	}
	return false
}

func cmdCheck(args []string) int {
	fs := flag.NewFlagSet("check", flag.ExitOnError)
	repo := fs.String("repo", "/repo", "repository working tree")
	tier := fs.String("tier", "", "quick|thorough")
	verifDir := fs.String("verif", "/verif", "")
	quiet := fs.Bool("q", false, "")
	fs.Parse(args)
	if fs.NArg() != 1 {
		fmt.Println("usage: govc check [--tier quick|thorough] <property id>")
		return 2
	}
	prop := fs.Arg(0)
	if *tier == "" {
		*tier = os.Getenv("VERIF_TIER")
	}
	if *tier != "thorough" {
		*tier = "quick"
	}
	seed, _ := strconv.Atoi(os.Getenv("VERIF_SEED"))
	t0 := time.Now()
	evPath := filepath.Join(*verifDir, "evidence", prop+".json")
	os.Remove(evPath)
	fail2 := func(msg string) int {
		fmt.Printf("UNDECIDED property=%s reason=%s\n", prop, msg)
		ev := &Evidence{PropertyID: prop, Tier: *tier, Seed: seed, Level: "other",
			Coverage:    map[string]interface{}{"explanation": "the check could not decide the property on this tree: " + msg, "obligations": 0, "discharged": 0},
			Assumptions: []string{}, WallS: time.Since(t0).Seconds()}
		writeJSON(evPath, ev)
		return 2
	}
	P, err := loadProgram(*repo)
	if err != nil {
		return fail2("cannot load /repo: " + err.Error())
	}
	if err := P.loadContracts(); err != nil {
		return fail2("contract files do not parse: " + err.Error())
	}
	kf, err := loadFindings(filepath.Join(*verifDir, "known_findings.json"))
	if err != nil {
		return fail2("known_findings.json: " + err.Error())
	}
	work := filepath.Join(*verifDir, ".work", prop)
	os.RemoveAll(work)
	os.MkdirAll(work, 0o755)
	opts := &VerifyOpts{WorkDir: work, TimeoutS: 10, Agree: 1, Prop: prop}
	if *tier == "thorough" {
		opts.TimeoutS = 30
		opts.Agree = 2
	}
	for _, f := range kf.Findings {
		if f.Status == "open" && f.Bounded == "" {
			opts.Findings = append(opts.Findings, f)
		}
	}
	cr := &checkRun{prop: prop, tier: *tier, P: P, opts: opts, results: map[string]*FuncResult{}, findings: kf}
	// roots: functions whose contract carries the property
	var roots []string
	for k, sp := range P.Specs {
		if hasProp(sp, prop) && !sp.Trusted && !strings.HasPrefix(k, "ext.") && !strings.Contains(k, ".callback.") {
			roots = append(roots, k)
		}
	}
	sort.Strings(roots)
	if len(roots) == 0 && P.verifyStructural(prop) == nil {
		if items, _ := loadBounded(filepath.Join(*verifDir, "bounded.json")); len(items) == 0 {
			return fail2("no contract carries this property")
		}
	}
	// closure over used contracts
	pending := append([]string{}, roots...)
	seen := map[string]bool{}
	var mu sync.Mutex
	for len(pending) > 0 {
		batch := pending
		pending = nil
		var wg sync.WaitGroup
		sem := make(chan struct{}, 8)
		for _, k := range batch {
			if seen[k] {
				continue
			}
			seen[k] = true
			cr.order = append(cr.order, k)
			wg.Add(1)
			go func(k string) {
				defer wg.Done()
				sem <- struct{}{}
				defer func() { <-sem }()
				r := P.verifyFunc(k, opts)
				mu.Lock()
				cr.results[k] = r
				mu.Unlock()
			}(k)
		}
		wg.Wait()
		for _, k := range batch {
			r := cr.results[k]
			if r == nil {
				continue
			}
			for _, u := range r.Used {
				sp := P.Specs[u]
				if sp == nil || sp.Trusted || strings.HasPrefix(u, "ext.") || strings.Contains(u, ".callback.") {
					continue
				}
				if !seen[u] {
					pending = append(pending, u)
				}
			}
		}
	}
	// lemmas used by the proofs (and every lemma declared before them in the same package, which their own
	// proofs may use) are proved in the same run
	need := map[int]bool{}
	for _, k := range cr.order {
		r := cr.results[k]
		if r == nil {
			continue
		}
		for _, ln := range r.Lemmas {
			for i, ld := range P.Lemmas {
				if ld.Pkg+"."+ld.Name == ln {
					for j := 0; j <= i; j++ {
						if P.Lemmas[j].Pkg == ld.Pkg {
							need[j] = true
						}
					}
				}
			}
		}
	}
	for i, ld := range P.Lemmas {
		for _, p := range ld.Props {
			if p == prop {
				need[i] = true
			}
		}
	}
	var lidx []int
	for i := range need {
		lidx = append(lidx, i)
	}
	sort.Ints(lidx)
	var lwg sync.WaitGroup
	for _, i := range lidx {
		lwg.Add(1)
		go func(i int) {
			defer lwg.Done()
			r := P.verifyLemma(i, opts)
			mu.Lock()
			cr.results[r.Key] = r
			cr.order = append(cr.order, r.Key)
			mu.Unlock()
		}(i)
	}
	lwg.Wait()
	if sr := P.verifyStructural(prop); sr != nil {
		cr.results[sr.Key] = sr
		cr.order = append(cr.order, sr.Key)
	}
	sort.Strings(cr.order)
	// bounded stand-ins registered for this property (run against the real code through go test -overlay)
	items, err := loadBounded(filepath.Join(*verifDir, "bounded.json"))
	if err != nil {
		return fail2("bounded.json: " + err.Error())
	}
	cr.repo = *repo
	for _, it := range items {
		if it.Property == prop {
			cr.bounded = append(cr.bounded, runBounded(*repo, *verifDir, it, *tier))
		}
	}
	return cr.report(evPath, t0, seed, *quiet, *verifDir)
}

func writeJSON(path string, v interface{}) {
	b, _ := json.MarshalIndent(v, "", " ")
	writeFile(path, string(b)+"\n")
}

func (cr *checkRun) report(evPath string, t0 time.Time, seed int, quiet bool, verifDir string) int {
	prop := cr.prop
	var undecided []string
	total, discharged := 0, 0
	covers, coversOK := 0, 0
	var solverMs int64
	backends := map[string]int{}
	assum := map[string]bool{}
	trusted := map[string]bool{}
	var violations []*OblResult
	var knownSeen []string
	var samples []interface{}
	var funcs []string
	var perFunc []map[string]interface{}
	slow := []map[string]interface{}{}
	inlinedAll := map[string]bool{}
	for _, k := range cr.order {
		r := cr.results[k]
		if r.Err != nil {
			undecided = append(undecided, fmt.Sprintf("%s: %v", k, r.Err))
			continue
		}
		funcs = append(funcs, k)
		for _, n := range r.Notes {
			assum[n] = true
		}
		for _, u := range r.Used {
			if sp := cr.P.Specs[u]; sp != nil && (sp.Trusted || strings.Contains(u, ".callback.") || strings.HasPrefix(u, "ext.")) {
				trusted[u] = true
			}
		}
		for _, i := range r.Inlined {
			inlinedAll[i] = true
		}
		fo, fd := 0, 0
		for _, or := range r.Results {
			if or.Status == "skipped" {
				continue
			}
			solverMs += or.Solve.Millis
			if or.Solve.Millis >= 3000 && or.Obl.Kind != "cover" {
				slow = append(slow, map[string]interface{}{"obligation": or.Obl.Name, "solver_ms": or.Solve.Millis, "backend": or.Solve.Backend, "status": or.Status})
			}
			if or.Obl.Kind == "cover" {
				covers++
				switch or.Status {
				case "cover-ok", "cover-notrefuted":
					coversOK++
				default:
					undecided = append(undecided, fmt.Sprintf("%s: vacuous contract (%s is unsatisfiable)", k, or.Obl.Name))
				}
				continue
			}
			total++
			fo++
			switch or.Status {
			case "discharged":
				discharged++
				fd++
				backends[or.Solve.Backend]++
				if len(samples) < 4 && or.Obl.Kind == "post" {
					samples = append(samples, map[string]interface{}{"obligation": or.Obl.Name, "kind": or.Obl.Kind, "statement": or.Obl.Src, "backend": or.Solve.Backend, "solver_ms": or.Solve.Millis, "smt2": or.File})
				}
			case "known":
				discharged++
				fd++
				backends[or.Solve.Backend]++
			default:
				violations = append(violations, or)
			}
			if or.KnownLine != "" {
				knownSeen = append(knownSeen, or.KnownLine)
			}
			if or.KnownNote != "" {
				assum[or.KnownNote] = true
			}
		}
		perFunc = append(perFunc, map[string]interface{}{"function": k, "obligations": fo, "discharged": fd, "encode_and_solve_ms": r.Millis})
	}
	var trustedList, assumList, inlinedList []string
	for k := range trusted {
		trustedList = append(trustedList, "assumed contract (body not verified here): "+k)
	}
	sort.Strings(trustedList)
	for k := range assum {
		assumList = append(assumList, k)
	}
	sort.Strings(assumList)
	for k := range inlinedAll {
		inlinedList = append(inlinedList, k)
	}
	sort.Strings(inlinedList)
	baseTrusted := []string{
		"A1: govc's translation of go/ssa to SMT-LIB (trusted; exercised by the must-fail corpus in /verif/seeded)",
		"A2: induction over operation histories (invariants are pre+post of every operation) is a meta-argument",
		"A3: unsat answers of z3 4.8.12 / z3 5.1.0 / cvc5 1.0.3",
		"A4: machine integers treated as mathematical integers (no overflow obligations)",
	}
	trustedBase := append(append([]string{}, baseTrusted...), trustedList...)
	ev := &Evidence{PropertyID: prop, Tier: cr.tier, Seed: seed, Level: "proof", Assumptions: append(append([]string{}, assumList...), trustedList...), WallS: 0}
	if samples == nil {
		samples = []interface{}{}
	}
	if knownSeen == nil {
		knownSeen = []string{}
	}
	if undecided == nil {
		undecided = []string{}
	}
	cov := map[string]interface{}{
		"obligations":              total,
		"discharged":               discharged,
		"checker_cmd":              fmt.Sprintf("/verif/bin/check %s --tier %s  (govc: VCs from go/ssa of /repo's working tree + //@ contracts; solvers raced: z3 4.8.12, z3 5.1.0, cvc5 1.0.3)", prop, cr.tier),
		"trusted_base":             trustedBase,
		"functions_under_contract": funcs,
		"functions_inlined":        inlinedList,
		"per_function":             perFunc,
		"backends":                 backends,
		"solver_ms_total":          solverMs,
		"slow_obligations":         slow,
		"covers":                   covers,
		"covers_ok":                coversOK,
		"known_findings_seen":      knownSeen,
		"samples":                  samples,
		"undecided":                undecided,
	}
	var bnd []interface{}
	var unlisted []map[string]interface{}
	nb, nstand := 0, 0
	for _, br := range cr.bounded {
		ent := map[string]interface{}{"name": br.Item.Name, "what": br.Item.What, "bound": br.Item.Bound, "seconds": br.Seconds, "passed": br.OK, "labelled": "bounded stand-in (not a proof; not counted in discharged)"}
		if br.Item.Role == "cross-check" {
			ent["labelled"] = "bounded cross-check run next to the proof (also the replay platform for counterexamples); not counted in discharged"
		} else {
			nstand++
		}
		if br.Report != nil {
			for _, k := range []string{"cases", "distinct_nontrivial", "samples", "max_players", "max_amount", "states", "transitions", "refusal_attempts", "closed_hands", "configs", "max_depth", "bound"} {
				if v, ok := br.Report[k]; ok {
					ent[k] = v
				}
			}
		}
		bnd = append(bnd, ent)
		nb++
		// known findings reproduced by the stand-in (listed in known_findings.json by id)
		if br.Report != nil {
			if kl, ok := br.Report["known_findings"].([]interface{}); ok {
				for _, x := range kl {
					xm, _ := x.(map[string]interface{})
					listed := false
					for _, f := range cr.findings.Findings {
						if f.Status == "open" && f.Bounded == br.Item.Name && f.ID == fmt.Sprint(xm["id"]) {
							listed = true
							if f.appliesTo(prop) {
								knownSeen = append(knownSeen, fmt.Sprintf("KNOWN-FINDING: property=%s %s [%s; reproduced by bounded stand-in %s on input %v: %v]", prop, f.What, f.ID, br.Item.Name, toJSON(xm["input"]), xm["message"]))
							}
						}
					}
					if !listed {
						// the harness recognises the failure pattern of a finding that is not (or no longer) listed as
						// open in known_findings.json: an ordinary violation
						unlisted = append(unlisted, map[string]interface{}{"name": br.Item.Name, "id": xm["id"], "input": xm["input"], "message": xm["message"], "item": br.Item})
					}
				}
			}
		}
		if br.Err != "" {
			undecided = append(undecided, "bounded stand-in "+br.Item.Name+": "+br.Err+": "+truncate(br.Output, 300))
		}
	}
	if nb > 0 {
		cov["bounded"] = bnd
	}
	if nstand > 0 {
		ev.Level = "other"
		cov["explanation"] = "hybrid: the obligations listed under obligations/discharged are proved by contract-based deductive verification of the real code; the clauses no contract within reach could discharge are covered by the bounded stand-ins listed under 'bounded' (exhaustive small-scope runs of the real code against an oracle written from the statement) — bounded, not proved"
	}
	ev.Coverage = cov
	code := 0
	if len(undecided) > 0 {
		for _, u := range undecided {
			fmt.Printf("UNDECIDED property=%s %s\n", prop, u)
		}
		// No proof for those functions on this tree. A failed proof is not a violation: if bounded runs of the real
		// code cover this property and all passed, the verdict rests on them (exit 0, evidence level "other");
		// without any such run there is no verdict (exit 2).
		backed := nb > 0
		for _, br := range cr.bounded {
			if !br.OK || br.Err != "" {
				backed = false
			}
		}
		for _, u := range undecided {
			if strings.Contains(u, "vacuous contract") {
				backed = false
			}
		}
		if !backed {
			code = 2
		}
		ev.Level = "other"
		cov["explanation"] = "some functions could not be decided on this tree (outside the verified subset, contract binding broken by a source change, or vacuous contract): no proof for them; the verdict rests on the bounded runs of the real code listed under 'bounded' where there are any, otherwise there is no verdict (exit 2)"
	}
	{
		// one line per finding id
		seenID := map[string]bool{}
		var ded []string
		for _, l := range knownSeen {
			id := l
			if a := strings.Index(l, " ["); a >= 0 {
				if b := strings.IndexAny(l[a+2:], ";]"); b >= 0 {
					id = l[a+2 : a+2+b]
				}
			}
			if seenID[id] {
				continue
			}
			seenID[id] = true
			ded = append(ded, l)
		}
		knownSeen = ded
		cov["known_findings_seen"] = knownSeen
	}
	for _, l := range knownSeen {
		fmt.Println(l)
	}
	if len(violations) > 0 {
		code = 1
		os.MkdirAll(filepath.Join(verifDir, "replays"), 0o755)
		for _, v := range violations {
			cr.tryReplay(v)
			path, tail := cr.writeReplay(v, verifDir)
			fmt.Printf("VIOLATION property=%s replay=%s obligation=%s status=%s%s\n", prop, path, v.Obl.Name, v.Status, tail)
		}
	}
	for _, u := range unlisted {
		code = 1
		it := u["item"].(*BoundedItem)
		os.MkdirAll(filepath.Join(verifDir, "replays"), 0o755)
		path := filepath.Join(verifDir, "replays", safeName(prop+"-bounded-"+it.Name+"-"+fmt.Sprint(u["id"]))+".json")
		writeJSON(path, map[string]interface{}{"property": prop, "kind": "bounded-stand-in", "name": it.Name, "failing_input": u["input"], "message": u["message"],
			"pkg": it.Pkg, "files": it.Files, "replay_test": it.ReplayRun, "note": "failure pattern of finding " + fmt.Sprint(u["id"]) + ", which is not listed as open in known_findings.json; replay with /verif/bin/replay <this file>"})
		fmt.Printf("VIOLATION property=%s replay=%s bounded=%s message=%v\n", prop, path, it.Name, u["message"])
	}
	for _, br := range cr.bounded {
		if br.Report != nil && br.Report["failure"] != nil {
			code = 1
			os.MkdirAll(filepath.Join(verifDir, "replays"), 0o755)
			path := filepath.Join(verifDir, "replays", safeName(prop+"-bounded-"+br.Item.Name)+".json")
			writeJSON(path, map[string]interface{}{"property": prop, "kind": "bounded-stand-in", "name": br.Item.Name, "failing_input": br.Report["failure"],
				"message": br.Report["message"], "replay_test": br.Item.ReplayRun, "pkg": br.Item.Pkg, "files": br.Item.Files,
				"note": "failing input found by running the real code; replay with /verif/bin/replay <this file>"})
			fmt.Printf("VIOLATION property=%s replay=%s bounded=%s message=%v\n", prop, path, br.Item.Name, br.Report["message"])
			ev.Violations++
		}
	}
	ev.Violations += len(violations)
	ev.WallS = time.Since(t0).Seconds()
	writeJSON(evPath, ev)
	if !quiet {
		fmt.Printf("property=%s tier=%s functions=%d obligations=%d discharged=%d covers=%d/%d violations=%d undecided=%d wall=%.1fs\n",
			prop, cr.tier, len(funcs), total, discharged, coversOK, covers, len(violations), len(undecided), ev.WallS)
	}
	return code
}

type ReplayFile struct {
	Property   string            `json:"property"`
	Obligation string            `json:"obligation"`
	Kind       string            `json:"kind"`
	Function   string            `json:"function"`
	Statement  string            `json:"statement"`
	Position   string            `json:"position"`
	Status     string            `json:"status"`
	Solver     string            `json:"solver"`
	SolverOut  string            `json:"solver_output"`
	SMT2       string            `json:"smt2"`
	Model      map[string]string `json:"model,omitempty"`
	Replay     *ReplayOutcome    `json:"replay,omitempty"`
	Note       string            `json:"note"`
}

type ReplayOutcome struct {
	Ran      bool   `json:"ran"`
	Verdict  string `json:"verdict"` // property-violated | passes | spurious-prestate | not-replayable
	Output   string `json:"output"`
	TestFile string `json:"test_file,omitempty"`
	Package  string `json:"package,omitempty"`     // package directory (relative to the repository root) the test belongs to
	Source   string `json:"test_source,omitempty"` // the generated in-package test (re-run by /verif/bin/replay)
}

// runModelReplay injects the generated test into the package with `go test -overlay` and runs it.
func runModelReplay(repo, pkgRel, src string) (verdict, output string) {
	tmp, err := os.MkdirTemp("", "govc-mr")
	if err != nil {
		return "not-replayable", err.Error()
	}
	defer os.RemoveAll(tmp)
	for _, f := range []string{"go.mod", "go.sum"} {
		b, err := os.ReadFile(filepath.Join(repo, f))
		if err != nil {
			return "not-replayable", err.Error()
		}
		os.WriteFile(filepath.Join(tmp, f), b, 0o644)
	}
	tf := filepath.Join(tmp, "zz_verif_model_replay_test.go")
	os.WriteFile(tf, []byte(src), 0o644)
	ob, _ := json.Marshal(map[string]interface{}{"Replace": map[string]string{filepath.Join(repo, pkgRel, "zz_verif_model_replay_test.go"): tf}})
	os.WriteFile(filepath.Join(tmp, "ov.json"), ob, 0o644)
	cmd := exec.Command("go", "test", "-modfile="+filepath.Join(tmp, "go.mod"), "-overlay="+filepath.Join(tmp, "ov.json"), "-vet=off", "-count=1", "-timeout=60s", "-v", "-run", "^TestVerifModelReplay$", "./"+pkgRel)
	cmd.Dir = repo
	cmd.Env = append(os.Environ(), "GOFLAGS=", "GOPROXY=off", "GOSUMDB=off", "GOTOOLCHAIN=local")
	out, _ := cmd.CombinedOutput()
	output = string(out)
	for _, ln := range strings.Split(output, "\n") {
		if k := strings.Index(ln, "VERIF-REPLAY "); k >= 0 {
			rest := ln[k+len("VERIF-REPLAY "):]
			v := strings.SplitN(rest, ":", 2)[0]
			return strings.TrimSpace(v), truncate(rest, 600)
		}
	}
	return "not-replayable", "the generated test did not run: " + truncate(output, 800)
}

// tryReplay: replay of the solver's counterexample on the real code (see mreplay.go)
func (cr *checkRun) tryReplay(v *OblResult) {
	if len(v.Model) == 0 || v.Func == "" || v.Func == "structural" {
		return
	}
	src, pkgRel, err := cr.P.genReplayTest(v.Func, v.Obl, v.Model)
	if err != nil {
		v.Replay = &ReplayOutcome{Ran: false, Verdict: "not-replayable", Output: err.Error()}
		return
	}
	verdict, out := runModelReplay(cr.repo, pkgRel, src)
	v.Replay = &ReplayOutcome{Ran: true, Verdict: verdict, Output: out, Package: pkgRel, Source: src}
}

func (cr *checkRun) writeReplay(v *OblResult, verifDir string) (string, string) {
	rf := &ReplayFile{Property: cr.prop, Obligation: v.Obl.Name, Kind: v.Obl.Kind, Function: v.Func, Statement: v.Obl.Src,
		Position: v.Obl.Pos, Status: v.Status, Solver: v.Solve.Backend, SolverOut: truncate(v.Solve.Output, 4000), SMT2: v.File, Model: v.Model}
	tail := " no-failing-input-found"
	rf.Note = "obligation generated from /repo's current source is not discharged (it is discharged on the unchanged tree); no failing input was confirmed on the real code"
	if v.Replay != nil && v.Replay.Verdict != "property-violated" {
		rf.Note += " [replay of the solver model: " + v.Replay.Verdict + ": " + truncate(v.Replay.Output, 300) + "]"
	}
	if v.Replay != nil {
		rf.Replay = v.Replay
		if v.Replay.Verdict == "property-violated" {
			tail = ""
			rf.Note = "the solver's counterexample was rebuilt as real objects, the real function was called on it and the failed clause is false on (or the function panics before reaching) the real post-state; re-run with /verif/bin/replay <this file>"
		}
	}
	path := filepath.Join(verifDir, "replays", safeName(cr.prop+"-"+v.Obl.Name)+".json")
	writeJSON(path, rf)
	return path, tail
}

func truncate(s string, n int) string {
	if len(s) > n {
		return s[:n] + "…"
	}
	return s
}

func toJSON(v interface{}) string {
	b, _ := json.Marshal(v)
	return string(b)
}
