package main

import (
	"encoding/json"
	"fmt"
	"os"
	"os/exec"
	"path/filepath"
	"strings"
	"time"
)

// Bounded stand-ins: in-package Go tests kept under /verif/replay/<pkg>/, injected into /repo's packages with
// `go test -overlay` (nothing is written to /repo) and run against the real code. They are labelled bounded in the
// evidence and are never counted as discharged obligations.
type BoundedItem struct {
	Property    string            `json:"property"`
	Name        string            `json:"name"`
	Pkg         string            `json:"pkg"`  // directory relative to /repo
	Dir         string            `json:"dir"`  // directory under /verif/replay holding the files (default: pkg)
	Role        string            `json:"role"` // "stand-in" (default): covers clauses no contract discharges; "cross-check": runs next to a proof
	Files       []string          `json:"files"`
	Run         string            `json:"run"`
	ReplayRun   string            `json:"replay_run"`
	QuickEnv    map[string]string `json:"quick_env"`
	ThoroughEnv map[string]string `json:"thorough_env"`
	What        string            `json:"what"`
	Bound       string            `json:"bound"`
	TimeoutS    int               `json:"timeout_s"`
}

type BoundedResult struct {
	Item    *BoundedItem
	OK      bool
	Report  map[string]interface{}
	Output  string
	Seconds float64
	Err     string
}

func loadBounded(path string) ([]*BoundedItem, error) {
	b, err := os.ReadFile(path)
	if err != nil {
		if os.IsNotExist(err) {
			return nil, nil
		}
		return nil, err
	}
	var items []*BoundedItem
	if err := json.Unmarshal(b, &items); err != nil {
		return nil, err
	}
	return items, nil
}

// overlayTest runs `go test` in repo with the given files of /verif/replay/<pkg> overlaid into the package.
func overlayTest(repo, verifDir, pkg, dir string, files []string, run string, env map[string]string, timeoutS int) (string, error) {
	if dir == "" {
		dir = pkg
	}
	tmp, err := os.MkdirTemp("", "govc-ov")
	if err != nil {
		return "", err
	}
	defer os.RemoveAll(tmp)
	for _, f := range []string{"go.mod", "go.sum"} {
		b, err := os.ReadFile(filepath.Join(repo, f))
		if err != nil {
			return "", err
		}
		os.WriteFile(filepath.Join(tmp, f), b, 0o644)
	}
	repl := map[string]string{}
	for _, f := range files {
		repl[filepath.Join(repo, pkg, f)] = filepath.Join(verifDir, "replay", dir, f)
	}
	ob, _ := json.Marshal(map[string]interface{}{"Replace": repl})
	os.WriteFile(filepath.Join(tmp, "ov.json"), ob, 0o644)
	if timeoutS <= 0 {
		timeoutS = 120
	}
	args := []string{"test", "-modfile=" + filepath.Join(tmp, "go.mod"), "-overlay=" + filepath.Join(tmp, "ov.json"), "-vet=off", "-count=1",
		fmt.Sprintf("-timeout=%ds", timeoutS), "-v", "-run", run, "./" + pkg}
	cmd := exec.Command("go", args...)
	cmd.Dir = repo
	cmd.Env = append(os.Environ(), "GOFLAGS=", "GOPROXY=off", "GOSUMDB=off", "GOTOOLCHAIN=local")
	for k, v := range env {
		cmd.Env = append(cmd.Env, k+"="+v)
	}
	out, err := cmd.CombinedOutput()
	return string(out), err
}

func runBounded(repo, verifDir string, it *BoundedItem, tier string) *BoundedResult {
	t0 := time.Now()
	env := it.QuickEnv
	if tier == "thorough" && it.ThoroughEnv != nil {
		env = it.ThoroughEnv
	}
	to := it.TimeoutS
	if tier == "thorough" {
		to *= 5
	}
	env2 := map[string]string{"VERIF_PROP": it.Property}
	for k, v := range env {
		env2[k] = v
	}
	out, err := overlayTest(repo, verifDir, it.Pkg, it.Dir, it.Files, it.Run, env2, to)
	r := &BoundedResult{Item: it, Output: out, Seconds: time.Since(t0).Seconds()}
	for _, ln := range strings.Split(out, "\n") {
		if k := strings.Index(ln, "VERIF-REPORT "); k >= 0 {
			var rep map[string]interface{}
			if json.Unmarshal([]byte(ln[k+len("VERIF-REPORT "):]), &rep) == nil {
				r.Report = rep
			}
		}
	}
	if err == nil && r.Report != nil && r.Report["failure"] == nil {
		r.OK = true
	} else if r.Report == nil {
		r.Err = "bounded stand-in did not produce a report (build failure or time-out)"
	}
	return r
}

// cmdReplay re-runs a recorded violation: for a bounded stand-in the failing input is executed again on the real
// code (exit 1 if the oracle still fails); for an obligation the recorded solver verdict is shown and the
// obligation is re-discharged on the current tree.
func cmdReplay(args []string) int {
	if len(args) != 1 {
		fmt.Println("usage: govc replay <replay file>")
		return 2
	}
	b, err := os.ReadFile(args[0])
	if err != nil {
		fmt.Println(err)
		return 2
	}
	var rf map[string]interface{}
	if err := json.Unmarshal(b, &rf); err != nil {
		fmt.Println(err)
		return 2
	}
	verifDir := "/verif"
	if rf["kind"] == "bounded-stand-in" {
		items, _ := loadBounded(filepath.Join(verifDir, "bounded.json"))
		for _, it := range items {
			if it.Name == rf["name"] && it.Property == rf["property"] {
				tmp, _ := os.CreateTemp("", "replay-*.json")
				in, _ := json.Marshal(rf["failing_input"])
				tmp.Write(in)
				tmp.Close()
				defer os.Remove(tmp.Name())
				out, err := overlayTest("/repo", verifDir, it.Pkg, it.Dir, it.Files, it.ReplayRun, map[string]string{"VERIF_REPLAY": tmp.Name(), "VERIF_PROP": it.Property}, 120)
				fmt.Println(out)
				if err != nil {
					fmt.Printf("REPLAY property=%v: the recorded input still violates the property on the current tree\n", rf["property"])
					return 1
				}
				fmt.Printf("REPLAY property=%v: the recorded input passes on the current tree\n", rf["property"])
				return 0
			}
		}
		fmt.Println("no bounded stand-in named", rf["name"])
		return 2
	}
	if rp, ok := rf["replay"].(map[string]interface{}); ok && rp["test_source"] != nil && rp["package"] != nil {
		// the solver's counterexample as a generated in-package test: run it again on the current tree
		verdict, out := runModelReplay("/repo", fmt.Sprint(rp["package"]), fmt.Sprint(rp["test_source"]))
		fmt.Printf("obligation %v of %v\nstatement: %v\nreplay of the recorded counterexample on the current tree: %s: %s\n", rf["obligation"], rf["function"], rf["statement"], verdict, out)
		if verdict == "property-violated" {
			fmt.Printf("REPLAY property=%v: the recorded input still violates the property on the current tree\n", rf["property"])
			return 1
		}
		fmt.Printf("REPLAY property=%v: the recorded input does not violate the clause on the current tree (%s)\n", rf["property"], verdict)
		return 0
	}
	fmt.Printf("obligation %v (%v) of %v: recorded status %v by %v\nstatement: %v\nSMT-LIB query: %v\n", rf["obligation"], rf["kind"], rf["function"], rf["status"], rf["solver"], rf["statement"], rf["smt2"])
	if m, ok := rf["model"].(map[string]interface{}); ok && len(m) > 0 {
		fmt.Println("counterexample (pre-state values from the solver model):")
		var ks []string
		for k := range m {
			ks = append(ks, k)
		}
		sortStrings(ks)
		for _, k := range ks {
			fmt.Printf("  %s = %v\n", k, m[k])
		}
	}
	fmt.Println("re-run /verif/bin/check", rf["property"], "to re-discharge the obligation on the current tree")
	return 0
}

func sortStrings(xs []string) {
	for i := range xs {
		for j := i + 1; j < len(xs); j++ {
			if xs[j] < xs[i] {
				xs[i], xs[j] = xs[j], xs[i]
			}
		}
	}
}
