package main

import (
	"fmt"
	"go/ast"
	"go/token"
	"strconv"
	"go/types"
	"os"
	"path/filepath"
	"sort"
	"strings"
	"sync"

	"golang.org/x/tools/go/packages"
	"golang.org/x/tools/go/ssa"
	"golang.org/x/tools/go/ssa/ssautil"
)

const modPath = "github.com/weedbox/pokerface"

var corePkgs = []string{".", "./pot", "./settlement", "./combination", "./seat_manager", "./regulator", "./table"}

type Program struct {
	Repo       string
	Fset       *token.FileSet
	Pkgs       map[string]*packages.Package // by package name
	SSA        *ssa.Program
	SPkgs      map[string]*ssa.Package
	Funcs      map[string]*ssa.Function // "pkg.(*T).M" / "pkg.F"
	Impl       map[string]types.Type    // interface named type key -> unique implementing pointer type
	Strings    map[string]int           // string literal -> code
	StrList    []string
	Specs      map[string]*FuncSpec // by function key
	Preds      map[string]*PredDef  // by "pkg.Name" and "Name" within pkg
	Funs       map[string]*FunDef   // recursive spec functions by "pkg.Name"
	Lemmas     []*LemmaDef
	Guards     []*GuardDef
	Structs    []*StructDef
	GhostDecls map[string][][2]string  // package -> (name, Go type) of ghost variables
	ghostTypes map[string]*types.Named // package -> synthesized struct type holding them
	GlobTab    map[*ssa.Global]*GlobalTable
	ErrGlobals []*ssa.Global
	mu         sync.Mutex
	tabMu      sync.Mutex
}

func funcKey(f *ssa.Function) string {
	if f.Pkg == nil {
		if f.Signature.Recv() != nil {
			return f.String()
		}
		return f.String()
	}
	pn := f.Pkg.Pkg.Name()
	if recv := f.Signature.Recv(); recv != nil {
		t := recv.Type()
		star := ""
		if p, ok := t.(*types.Pointer); ok {
			star = "*"
			t = p.Elem()
		}
		if n, ok := t.(*types.Named); ok {
			return fmt.Sprintf("%s.(%s%s).%s", pn, star, n.Obj().Name(), f.Name())
		}
	}
	if f.Parent() != nil {
		return funcKey(f.Parent()) + "$" + strings.TrimPrefix(f.Name(), f.Parent().Name()+"$")
	}
	return pn + "." + f.Name()
}

func loadProgram(repo string, extraPkgs ...string) (*Program, error) {
	cfg := &packages.Config{
		Mode:       packages.LoadAllSyntax,
		Dir:        repo,
		BuildFlags: []string{"-tags=verif"},
		Env:        append(os.Environ(), "GOFLAGS=-mod=mod", "GOPROXY=off", "GOSUMDB=off", "GOTOOLCHAIN=local"),
	}
	// keep /repo/go.mod untouched: use a scratch copy as -modfile
	scratch, err := os.MkdirTemp("", "govc-mod")
	if err != nil {
		return nil, err
	}
	defer os.RemoveAll(scratch)
	for _, f := range []string{"go.mod", "go.sum"} {
		b, err := os.ReadFile(filepath.Join(repo, f))
		if err != nil {
			return nil, err
		}
		os.WriteFile(filepath.Join(scratch, f), b, 0o644)
	}
	cfg.BuildFlags = append(cfg.BuildFlags, "-modfile="+filepath.Join(scratch, "go.mod"))
	pats := append(append([]string{}, corePkgs...), extraPkgs...)
	pkgs, err := packages.Load(cfg, pats...)
	if err != nil {
		return nil, err
	}
	nerr := 0
	packages.Visit(pkgs, nil, func(p *packages.Package) {
		if strings.HasPrefix(p.PkgPath, modPath) {
			for _, e := range p.Errors {
				fmt.Fprintln(os.Stderr, "load error:", e)
				nerr++
			}
		}
	})
	if nerr > 0 {
		return nil, fmt.Errorf("%d load errors in %s", nerr, repo)
	}
	prog, spkgs := ssautil.AllPackages(pkgs, ssa.GlobalDebug)
	prog.Build()
	P := &Program{Repo: repo, Fset: prog.Fset, Pkgs: map[string]*packages.Package{}, SSA: prog,
		SPkgs: map[string]*ssa.Package{}, Funcs: map[string]*ssa.Function{}, Impl: map[string]types.Type{},
		Strings: map[string]int{}, Specs: map[string]*FuncSpec{}, Preds: map[string]*PredDef{}, Funs: map[string]*FunDef{},
		GlobTab: map[*ssa.Global]*GlobalTable{}, GhostDecls: map[string][][2]string{}, ghostTypes: map[string]*types.Named{}}
	for i, p := range pkgs {
		P.Pkgs[p.Name] = p
		P.SPkgs[p.Name] = spkgs[i]
	}
	for f := range ssautil.AllFunctions(prog) {
		if f.Pkg == nil || !strings.HasPrefix(f.Pkg.Pkg.Path(), modPath) || f.Synthetic != "" {
			continue
		}
		P.Funcs[funcKey(f)] = f
	}
	P.findImplementers()
	P.internString("")
	// every string literal of the loaded packages gets its code up front (strings.HasSuffix / HasPrefix / Contains are
	// decided on these; any other string is left open)
	var lits []string
	for _, p := range P.Pkgs {
		for _, f := range p.Syntax {
			ast.Inspect(f, func(n ast.Node) bool {
				if bl, ok := n.(*ast.BasicLit); ok && bl.Kind == token.STRING {
					if v, err := strconv.Unquote(bl.Value); err == nil {
						lits = append(lits, v)
					}
				}
				return true
			})
		}
	}
	sort.Strings(lits)
	for _, v := range lits {
		P.internString(v)
	}
	// error-valued package-level variables (errors.New results): distinct non-nil constants
	var names []string
	byName := map[string]*ssa.Global{}
	for _, sp := range P.SPkgs {
		for _, m := range sp.Members {
			if g, ok := m.(*ssa.Global); ok {
				if pt, ok := g.Type().(*types.Pointer); ok && types.TypeString(pt.Elem(), nil) == "error" {
					n := sp.Pkg.Name() + "." + g.Name()
					names = append(names, n)
					byName[n] = g
				}
			}
		}
	}
	sort.Strings(names)
	for _, n := range names {
		P.ErrGlobals = append(P.ErrGlobals, byName[n])
	}
	return P, nil
}

func (P *Program) strSnapshot() []string {
	P.mu.Lock()
	defer P.mu.Unlock()
	return append([]string{}, P.StrList...)
}

func (P *Program) internString(s string) int {
	P.mu.Lock()
	defer P.mu.Unlock()
	if c, ok := P.Strings[s]; ok {
		return c
	}
	c := len(P.StrList)
	P.Strings[s] = c
	P.StrList = append(P.StrList, s)
	return c
}

// findImplementers records, for every named interface type of the core packages,
// the unique pointer-to-named type implementing it (assumption A7 is checked here).
func (P *Program) findImplementers() {
	var named []*types.Named
	for _, p := range P.Pkgs {
		sc := p.Types.Scope()
		for _, n := range sc.Names() {
			if tn, ok := sc.Lookup(n).(*types.TypeName); ok {
				if nt, ok := tn.Type().(*types.Named); ok {
					named = append(named, nt)
				}
			}
		}
	}
	for _, it := range named {
		iface, ok := it.Underlying().(*types.Interface)
		if !ok || iface.NumMethods() == 0 {
			continue
		}
		var impls []types.Type
		for _, ct := range named {
			if _, isI := ct.Underlying().(*types.Interface); isI {
				continue
			}
			pt := types.NewPointer(ct)
			if types.Implements(pt, iface) {
				impls = append(impls, pt)
			}
		}
		if len(impls) == 1 {
			P.Impl[typeKey(it)] = impls[0]
		}
	}
}

func (P *Program) concreteOf(t types.Type) types.Type {
	if _, ok := t.Underlying().(*types.Interface); ok {
		if c, ok := P.Impl[typeKey(t)]; ok {
			return c
		}
	}
	return t
}

// lookupMethod resolves an interface invoke to the unique implementation.
func (P *Program) lookupMethod(recvT types.Type, name string) *ssa.Function {
	ct := P.concreteOf(recvT)
	ms := P.SSA.MethodSets.MethodSet(ct)
	for i := 0; i < ms.Len(); i++ {
		if ms.At(i).Obj().Name() == name {
			return P.SSA.MethodValue(ms.At(i))
		}
	}
	return nil
}

// GlobalTable: a package-level map/slice variable initialised by a composite
// literal of constants and never written afterwards; read mechanically from the
// source on every run.
type GlobalTable struct {
	IsMap bool
	Keys  []string // SMT terms
	Vals  []string // SMT terms
	VT    types.Type
}

func (P *Program) globalTable(g *ssa.Global) *GlobalTable {
	P.tabMu.Lock()
	defer P.tabMu.Unlock()
	if t, ok := P.GlobTab[g]; ok {
		return t
	}
	P.GlobTab[g] = nil
	pkg := P.Pkgs[g.Pkg.Pkg.Name()]
	if pkg == nil {
		return nil
	}
	var lit *ast.CompositeLit
	for _, f := range pkg.Syntax {
		for _, d := range f.Decls {
			gd, ok := d.(*ast.GenDecl)
			if !ok || gd.Tok != token.VAR {
				continue
			}
			for _, s := range gd.Specs {
				vs := s.(*ast.ValueSpec)
				for i, n := range vs.Names {
					if n.Name == g.Name() && i < len(vs.Values) {
						lit, _ = vs.Values[i].(*ast.CompositeLit)
					}
				}
			}
		}
	}
	if lit == nil {
		return nil
	}
	// must never be written: no MapUpdate / IndexAddr-store through a value loaded from it
	for _, f := range P.Funcs {
		for _, b := range f.Blocks {
			for _, in := range b.Instrs {
				if mu, ok := in.(*ssa.MapUpdate); ok {
					if u, ok := mu.Map.(*ssa.UnOp); ok && u.X == ssa.Value(g) {
						return nil
					}
				}
				if st, ok := in.(*ssa.Store); ok && st.Addr == ssa.Value(g) {
					return nil
				}
			}
		}
	}
	info := pkg.TypesInfo
	tab := &GlobalTable{}
	constTerm := func(e ast.Expr) (string, bool) {
		tv, ok := info.Types[e]
		if !ok || tv.Value == nil {
			return "", false
		}
		return P.constTerm(tv.Value, tv.Type), true
	}
	elemT := g.Type().(*types.Pointer).Elem()
	switch u := elemT.Underlying().(type) {
	case *types.Map:
		tab.IsMap = true
		tab.VT = u.Elem()
		for _, el := range lit.Elts {
			kv, ok := el.(*ast.KeyValueExpr)
			if !ok {
				return nil
			}
			k, ok1 := constTerm(kv.Key)
			v, ok2 := constTerm(kv.Value)
			if !ok1 || !ok2 {
				return nil
			}
			tab.Keys = append(tab.Keys, k)
			tab.Vals = append(tab.Vals, v)
		}
	case *types.Slice:
		tab.VT = u.Elem()
		for i, el := range lit.Elts {
			v, ok := constTerm(el)
			if !ok {
				return nil
			}
			tab.Keys = append(tab.Keys, num(int64(i)))
			tab.Vals = append(tab.Vals, v)
		}
	default:
		return nil
	}
	P.GlobTab[g] = tab
	return tab
}

// ghostType synthesizes (once) the struct type whose fields are the ghost variables of a package.
func (P *Program) ghostType(pkg string) *types.Named {
	P.tabMu.Lock()
	defer P.tabMu.Unlock()
	if t, ok := P.ghostTypes[pkg]; ok {
		return t
	}
	decls := P.GhostDecls[pkg]
	if len(decls) == 0 {
		return nil
	}
	tp := P.Pkgs[pkg].Types
	var fields []*types.Var
	for _, d := range decls {
		fields = append(fields, types.NewField(token.NoPos, tp, d[0], P.parseType(pkg, d[1]), false))
	}
	nt := types.NewNamed(types.NewTypeName(token.NoPos, tp, "verif_ghost", nil), types.NewStruct(fields, nil), nil)
	P.ghostTypes[pkg] = nt
	return nt
}
