package main

import (
	"fmt"
	"go/types"
	"regexp"
	"sort"
	"strings"

	"golang.org/x/tools/go/ssa"
)

// ---------------------------------------------------------------------------
// Symbolic values
// ---------------------------------------------------------------------------

type VK int

const (
	kScalar  VK = iota // Int / Bool / Real term in S
	kSlice             // Arr (ref of backing array, Int), Len (Int); offset is always 0
	kStruct            // struct value: Fs
	kAddr              // address descriptor (result of FieldAddr/IndexAddr/Alloc of non-struct/Global)
	kTuple             // multi-value: Fs
	kClosure           // Fn + Fs (bindings)
	kIter              // map/string iterator
	kNone
	kRat // float64 value known to be the exact rational Num/Den (Den > 0); A6: floats as exact rationals
)

type AK int

const (
	aField  AK = iota // Base = ref of root struct, Root + Path select the heap array
	aElem             // Base = ref of backing array, Idx = index term, Root = element type, Path = path inside an element struct value
	aCell             // Base = ref of a cell, Root = cell type, Path inside
	aGlobal           // package-level variable
)

type Addr struct {
	K    AK
	Base string
	Idx  string
	Root types.Type // aField: the named struct type; aElem: element type; aCell: cell type
	Path []int      // field indices from Root down to the addressed location
	G    *ssa.Global
	N    int64 // aCell/aElem: if the addressed thing is an array [N]T allocated by new, its length; else -1
}

type Iter struct {
	MapRef  string // ref of the map
	MT      *types.Map
	Visited string // (Array Int Bool) term: keys already produced
}

type Val struct {
	T    types.Type
	K    VK
	S    string
	Arr  string
	Len  string
	Fs   []Val
	A    *Addr
	Fn   *ssa.Function
	It   *Iter
	Box  *Val // value boxed into an interface (non-pointer dynamic type)
	Num  string
	Inf  string // float64 value is +Inf (x/0 with x > 0)
	NInf string // float64 value is -Inf (x/0 with x < 0)
	Sp   string // "special" flag of a float64 value: NaN / Inf (division by a non-positive value); "" = false
	Den  string
	// provenance: value was loaded from this package-level variable (for table lookups)
	Glob *ssa.Global
}

func scalar(t types.Type, s string) Val { return Val{T: t, K: kScalar, S: s} }

type Comp struct {
	Suffix string
	Sort   string
	Ref    bool // holds a heap reference (pointer, map, interface, slice backing array)
}

func sortOfBasic(b *types.Basic) string {
	switch {
	case b.Info()&types.IsBoolean != 0:
		return "Bool"
	case b.Info()&types.IsFloat != 0:
		return "Real"
	default:
		return "Int"
	}
}

// flatten lists the scalar components a value of type t is made of.
func flatten(t types.Type) []Comp {
	switch u := t.Underlying().(type) {
	case *types.Basic:
		if u.Info()&types.IsFloat != 0 {
			return []Comp{{"#num", "Int", false}, {"#den", "Int", false}, {"#sp", "Bool", false}, {"#inf", "Bool", false}, {"#ninf", "Bool", false}}
		}
		return []Comp{{"", sortOfBasic(u), false}}
	case *types.Slice:
		return []Comp{{"#arr", "Int", true}, {"#len", "Int", false}}
	case *types.Struct:
		var out []Comp
		for i := 0; i < u.NumFields(); i++ {
			for _, c := range flatten(u.Field(i).Type()) {
				out = append(out, Comp{"." + u.Field(i).Name() + c.Suffix, c.Sort, c.Ref})
			}
		}
		return out
	case *types.Tuple:
		var out []Comp
		for i := 0; i < u.Len(); i++ {
			for _, c := range flatten(u.At(i).Type()) {
				out = append(out, Comp{fmt.Sprintf("$%d%s", i, c.Suffix), c.Sort, c.Ref})
			}
		}
		return out
	default:
		// pointer, map, chan, func, interface, unsafe pointer
		if types.TypeString(t, nil) == "error" {
			return []Comp{{"", "Int", false}}
		}
		if _, isSig := t.Underlying().(*types.Signature); isSig {
			return []Comp{{"", "Int", false}}
		}
		return []Comp{{"", "Int", true}}
	}
}

func comps(v Val) []string {
	switch v.K {
	case kScalar:
		return []string{v.S}
	case kRat:
		sp := v.Sp
		if sp == "" {
			sp = "false"
		}
		inf := v.Inf
		if inf == "" {
			inf = "false"
		}
		ninf := v.NInf
		if ninf == "" {
			ninf = "false"
		}
		return []string{v.Num, v.Den, sp, inf, ninf}
	case kSlice:
		return []string{v.Arr, v.Len}
	case kStruct, kTuple:
		var out []string
		for _, f := range v.Fs {
			out = append(out, comps(f)...)
		}
		return out
	case kClosure:
		return []string{"1"}
	}
	panic(unsupported("comps of value kind %d (type %v)", v.K, v.T))
}

func fromComps(t types.Type, cs []string) (Val, []string) {
	switch u := t.Underlying().(type) {
	case *types.Slice:
		return Val{T: t, K: kSlice, Arr: cs[0], Len: cs[1]}, cs[2:]
	case *types.Struct:
		v := Val{T: t, K: kStruct}
		for i := 0; i < u.NumFields(); i++ {
			var f Val
			f, cs = fromComps(u.Field(i).Type(), cs)
			v.Fs = append(v.Fs, f)
		}
		return v, cs
	case *types.Tuple:
		v := Val{T: t, K: kTuple}
		for i := 0; i < u.Len(); i++ {
			var f Val
			f, cs = fromComps(u.At(i).Type(), cs)
			v.Fs = append(v.Fs, f)
		}
		return v, cs
	case *types.Basic:
		if u.Info()&types.IsFloat != 0 {
			return Val{T: t, K: kRat, Num: cs[0], Den: cs[1], Sp: cs[2], Inf: cs[3], NInf: cs[4]}, cs[5:]
		}
		return scalar(t, cs[0]), cs[1:]
	default:
		return scalar(t, cs[0]), cs[1:]
	}
}

func zeroTerm(sort string) string {
	switch sort {
	case "Bool":
		return "false"
	case "Real":
		return "0.0"
	}
	return "0"
}

func zeroVal(t types.Type) Val {
	cs := flatten(t)
	ts := make([]string, len(cs))
	for i, c := range cs {
		ts[i] = zeroTerm(c.Sort)
		if strings.HasSuffix(c.Suffix, "#den") {
			ts[i] = "1"
		}
	}
	v, _ := fromComps(t, ts)
	return v
}

type Unsupported struct{ Msg string }

func (u Unsupported) Error() string { return u.Msg }
func unsupported(f string, a ...interface{}) Unsupported {
	return Unsupported{fmt.Sprintf(f, a...)}
}

var reSan = regexp.MustCompile(`[^A-Za-z0-9_.]`)

func typeKey(t types.Type) string {
	s := types.TypeString(t, func(p *types.Package) string { return p.Name() })
	s = strings.ReplaceAll(s, "*", "P_")
	s = strings.ReplaceAll(s, "[]", "S_")
	s = strings.ReplaceAll(s, "interface{}", "any")
	return reSan.ReplaceAllString(s, "_")
}

func namedStruct(t types.Type) (*types.Named, *types.Struct) {
	if p, ok := t.Underlying().(*types.Pointer); ok {
		t = p.Elem()
	}
	n, ok := t.(*types.Named)
	if !ok {
		return nil, nil
	}
	st, ok := n.Underlying().(*types.Struct)
	if !ok {
		return nil, nil
	}
	return n, st
}

// typeAtPath walks field indices starting from root (a struct type).
func typeAtPath(root types.Type, path []int) types.Type {
	t := root
	for _, i := range path {
		st := t.Underlying().(*types.Struct)
		t = st.Field(i).Type()
	}
	return t
}

func pathName(root types.Type, path []int) string {
	t := root
	s := ""
	for _, i := range path {
		st := t.Underlying().(*types.Struct)
		s += "." + st.Field(i).Name()
		t = st.Field(i).Type()
	}
	return s
}

// ---------------------------------------------------------------------------
// Heap
// ---------------------------------------------------------------------------

type Heap struct {
	m      map[string]string // heap array name -> current term
	alloc  string
	lock   string                     // lock discipline: "" not held | "r" | "w" (path-sensitive, merged conservatively)
	formal *formalHeap                // non-nil: a heap made of formal array parameters (spec function bodies) or of separately declared symbols (lemma proofs)
	bases  map[string]map[string]bool // which cells were written since the enclosing loop cut ("*" = unknown)
	dirty  map[string]int             // written since the enclosing loop cut: minimum allocation serial of the written base refs (0 = pre-existing memory)
}

type formalHeap struct {
	prefix  string
	declare bool
	used    map[string]string
	order   []string
}

func (h *Heap) clone() *Heap {
	n := &Heap{m: make(map[string]string, len(h.m)), alloc: h.alloc, dirty: make(map[string]int, len(h.dirty)), formal: h.formal, lock: h.lock, bases: copyBases(h.bases)}
	for k, v := range h.m {
		n.m[k] = v
	}
	for k, v := range h.dirty {
		n.dirty[k] = v
	}
	return n
}

func (h *Heap) mark(name string, serial int) {
	if old, ok := h.dirty[name]; !ok || serial < old {
		h.dirty[name] = serial
	}
}

// markBase records which cell (base ref term) of a heap array was written; "*" = unknown / whole array
func (h *Heap) markBase(name, base string) {
	if h.bases == nil {
		h.bases = map[string]map[string]bool{}
	}
	if h.bases[name] == nil {
		h.bases[name] = map[string]bool{}
	}
	if base == "" {
		base = "*"
	}
	h.bases[name][base] = true
}

func copyBases(b map[string]map[string]bool) map[string]map[string]bool {
	n := map[string]map[string]bool{}
	for k, s := range b {
		n[k] = map[string]bool{}
		for x := range s {
			n[k][x] = true
		}
	}
	return n
}

func addrEqual(a, b *Addr) bool {
	if a.K != b.K || a.Base != b.Base || a.Idx != b.Idx || a.G != b.G || len(a.Path) != len(b.Path) || !types.Identical(a.Root, b.Root) {
		return false
	}
	for i := range a.Path {
		if a.Path[i] != b.Path[i] {
			return false
		}
	}
	return true
}

func sortedKeys(m map[string]string) []string {
	ks := make([]string, 0, len(m))
	for k := range m {
		ks = append(ks, k)
	}
	sort.Strings(ks)
	return ks
}

// array sort bookkeeping: name -> SMT sort of the heap array
func arrSort(kind byte, compSort string) string {
	switch kind {
	case 'F', 'C': // struct field / cell: Ref -> comp
		return "(Array Int " + compSort + ")"
	case 'E', 'V': // slice elements / map values: Ref -> Int -> comp
		return "(Array Int (Array Int " + compSort + "))"
	case 'D': // map domain
		return "(Array Int (Array Int Bool))"
	case 'L': // map length
		return "(Array Int Int)"
	}
	panic("arrSort")
}
