package main

import (
	"fmt"
	"go/token"
	"go/types"
	"sort"
	"strings"

	"golang.org/x/tools/go/ssa"
)

// ---------------------------------------------------------------------------
// Loops
// ---------------------------------------------------------------------------

func (fr *Frame) headerPhis(b *ssa.BasicBlock) []*ssa.Phi {
	var out []*ssa.Phi
	for _, in := range b.Instrs {
		if p, ok := in.(*ssa.Phi); ok {
			out = append(out, p)
		} else {
			break
		}
	}
	return out
}

// runBlocks processes the blocks of one loop (in the frame's topological order)
// starting at its header with the given state. Used for the dry run.
func (fr *Frame) loopOrder(li *loopInfo) []*ssa.BasicBlock {
	order := fr.analyzeOrder()
	var out []*ssa.BasicBlock
	for _, b := range order {
		if li.blocks[b] {
			out = append(out, b)
		}
	}
	return out
}

func (fr *Frame) analyzeOrder() []*ssa.BasicBlock {
	seen := map[*ssa.BasicBlock]bool{}
	var post []*ssa.BasicBlock
	var dfs func(b *ssa.BasicBlock)
	dfs = func(b *ssa.BasicBlock) {
		seen[b] = true
		for _, s := range b.Succs {
			if s.Dominates(b) {
				continue
			}
			if !seen[s] {
				dfs(s)
			}
		}
		post = append(post, b)
	}
	dfs(fr.fn.Blocks[0])
	for i, j := 0, len(post)-1; i < j; i, j = i+1, j-1 {
		post[i], post[j] = post[j], post[i]
	}
	return post
}

type loopDry struct {
	bases   map[string]map[string]bool
	dirty   map[string]int
	alloc   bool
	li      *loopInfo
	serial0 int
}

func (fr *Frame) cutLoop(b *ssa.BasicBlock, preds []*ssa.BasicBlock, ins []edgeInfo, st *BState) {
	e := fr.e
	li := fr.loops[b]
	phis := fr.headerPhis(b)
	entryVals := map[ssa.Value]Val{}
	for _, phi := range phis {
		entryVals[phi] = fr.phiVal(phi, b, preds, ins)
	}
	if li.spec != nil && li.spec.Unroll > 0 {
		panic(unsupported("unroll not available for loop %d of %s", li.ord, fr.fn.Name()))
	}
	var invs []Clause
	if li.spec != nil {
		invs = li.spec.Invariants
	}
	label := fmt.Sprintf("%sloop%d", fr.callpath, li.ord)
	// 1. invariants hold on entry
	if e.dry == 0 {
		for i, c := range invs {
			ctx := fr.specCtx(st.heap, b)
			ctx.override = entryVals
			parts := ctx.evalSplit(c.Expr)
			for j, g := range parts {
				o := e.oblige(fmt.Sprintf("%s#%s:inv-init:%d/%d", e.topKey(), label, i+1, j+1), "inv-init", st.reach, g, fr.pos(b.Instrs[0].Pos()), "loop invariant on entry: "+c.Src, c.Tags)
				if len(parts) > 1 {
					o.Group = fmt.Sprintf("%s#%s:inv-init:%d", e.topKey(), label, i+1)
				}
			}
		}
	}
	// 2. dry run: which heap arrays does the body write?
	serial0 := e.serial
	outerDirty := st.heap.dirty
	dry := fr.dryRun(li, st, phis)
	fr.curBlock = b
	// 3. havoc
	h := st.heap.clone()
	h.dirty = map[string]int{}
	for k, v := range outerDirty {
		h.dirty[k] = v
	}
	allocIn := st.heap.alloc
	if dry.alloc {
		na := e.fresh("alloc", "Int")
		e.assume("true", sx(">=", na, allocIn))
		h.alloc = na
	}
	var names []string
	for k := range dry.dirty {
		names = append(names, k)
	}
	sort.Strings(names)
	nlEntry := len(e.lines)
	for _, k := range names {
		srt := e.hsort(k)
		old := e.harr(st.heap, k, srt)
		// precise havoc: when every write in the loop goes to cells whose base refs are fixed before the loop,
		// only those cells are unknown at the loop head
		precise := len(dry.bases[k]) > 0 && !strings.HasPrefix(k, "IT_")
		var bs []string
		for b := range dry.bases[k] {
			at, known := e.symAt[b]
			if b == "*" || !strings.HasPrefix(b, "|") || strings.Contains(b, " ") || (known && at > nlEntry) || (!known && !strings.HasPrefix(b, "|arg.")) {
				precise = false
			}
			bs = append(bs, b)
		}
		var nw string
		if precise {
			sort.Strings(bs)
			inner := strings.TrimSuffix(strings.TrimPrefix(srt, "(Array Int "), ")")
			t := old
			for _, b := range bs {
				t = store(t, b, e.fresh(k+"!cell", inner))
			}
			nw = e.define(k, srt, t)
			for b := range dry.bases[k] {
				h.markBase(k, b)
			}
		} else {
			nw = e.fresh(k, srt)
			h.markBase(k, "*")
		}
		h.m[k] = nw
		h.mark(k, dry.dirty[k])
		e.assumeClosure(k, nw, h.alloc)
		if dry.dirty[k] > serial0 && !strings.HasPrefix(k, "IT_") {
			// only freshly allocated cells were written: everything that existed at loop entry is unchanged
			e.assume("true", fmt.Sprintf("(forall ((r Int)) (! (=> (<= r %s) (= (select %s r) (select %s r))) :pattern ((select %s r))))", allocIn, nw, old, nw))
		}
		if strings.HasPrefix(k, "IT_") {
			fr.iterFacts(k, nw, h)
		}
	}
	// automatic frame invariants: cells outside the top-level modifies clause keep their entry values
	li.frameInv = nil
	if e.dry == 0 {
		if whole, cells, ok := e.topModifies(); ok {
			for _, k := range names {
				if _, w := whole[k]; w || strings.HasPrefix(k, "IT_") || dry.dirty[k] > serial0 {
					continue
				}
				var refs []string
				for _, c := range cells {
					if c.arr == k {
						refs = append(refs, c.ref)
					}
				}
				li.frameInv = append(li.frameInv, frameInvItem{name: k, sort: e.hsort(k), refs: refs})
				e.oblige(fmt.Sprintf("%s#%s:frame-init:%s", e.topKey(), label, k), "frame", st.reach, e.frameGoal(e.harr(st.heap, k, e.hsort(k)), k, refs), fr.pos(b.Instrs[0].Pos()), "loop frame on entry: "+k+" unchanged outside the modifies clause", nil)
				e.assume("true", e.frameFact(h.m[k], k, refs))
			}
		}
	}
	for _, phi := range phis {
		v := e.freshVal(fr.vname(phi), phi.Type())
		if entryVals[phi].K == kAddr || entryVals[phi].K == kIter || entryVals[phi].K == kClosure {
			v = entryVals[phi]
		}
		fr.env[phi] = v
		e.assume("true", e.typeFacts(v, h))
		if phi.Comment == "rangeindex" && v.K == kScalar {
			// go/ssa lowers "for i := range s" to an index starting at -1 and incremented at the loop head,
			// re-entering the head only after "index+1 < len" held: -1 <= index < len (for a non-empty range)
			e.assume("true", sx(">=", v.S, "(- 1)"))
			for _, hin := range b.Instrs {
				if bo, ok := hin.(*ssa.BinOp); ok && bo.Op == token.LSS {
					if add, ok := bo.X.(*ssa.BinOp); ok && add.Op == token.ADD && add.X == ssa.Value(phi) {
						if lv, ok := fr.env[bo.Y]; ok && lv.K == kScalar {
							e.assume("true", or(eq(v.S, "(- 1)"), sx("<", v.S, lv.S)))
						}
					}
				}
			}
		}
	}
	st.heap = h
	li.heapIn = h
	li.allocIn = allocIn
	st.reach = e.define(fmt.Sprintf("%sR%d", fr.prefix, b.Index), "Bool", st.reach)
	for _, c := range invs {
		ctx := fr.specCtx(st.heap, b)
		e.assume(st.reach, ctx.evalBool(c.Expr))
	}
	if len(invs) == 0 && e.dry == 0 {
		e.note(fmt.Sprintf("loop %d of %s cut without invariant (state after the loop is unconstrained)", li.ord, funcKey(fr.fn)))
	}
}

func (fr *Frame) iterFacts(itName, visited string, h *Heap) {
	// visited ⊆ dom(map) is assumed at Next (where the map ref is known)
}

func (fr *Frame) dryRun(li *loopInfo, st *BState, phis []*ssa.Phi) *loopDry {
	e := fr.e
	nl, no := len(e.lines), len(e.obls)
	savedEdges := fr.edges
	fr.edges = map[[2]int]edgeInfo{}
	for k, v := range savedEdges {
		fr.edges[k] = v
	}
	savedRets := fr.rets
	savedOrd := map[string]int{}
	for k, v := range fr.ord {
		savedOrd[k] = v
	}
	savedNotes := e.notes
	e.notes = map[string]bool{}
	e.dry++
	d := &loopDry{dirty: map[string]int{}, bases: map[string]map[string]bool{}, li: li, serial0: e.serial}
	fr.dryStack = append(fr.dryStack, d)
	h := st.heap.clone()
	h.dirty = map[string]int{}
	h.bases = map[string]map[string]bool{}
	for _, phi := range phis {
		if ev := fr.env[phi]; ev.K == kAddr || ev.K == kIter || ev.K == kClosure {
			continue
		}
		fr.env[phi] = e.freshVal(fr.vname(phi)+"~dry", phi.Type())
	}
	// entry values for address-like phis
	cur := BState{reach: st.reach, heap: h}
	order := fr.loopOrder(li)
	for _, b := range order {
		fr.curBlock = b
		var bs BState
		if b == li.header {
			bs = cur
		} else {
			var ins []edgeInfo
			var inPreds []*ssa.BasicBlock
			for _, p := range b.Preds {
				if b.Dominates(p) || !li.blocks[p] {
					continue
				}
				if ei, ok := fr.edges[[2]int{p.Index, b.Index}]; ok && ei.reach != "false" {
					ins = append(ins, ei)
					inPreds = append(inPreds, p)
				}
			}
			if len(ins) == 0 {
				continue
			}
			bs = fr.merge(b, ins)
			if fr.loops[b] == nil {
				for _, in := range b.Instrs {
					phi, ok := in.(*ssa.Phi)
					if !ok {
						break
					}
					fr.env[phi] = fr.phiVal(phi, b, inPreds, ins)
				}
			} else {
				fr.cutLoop(b, inPreds, ins, &bs)
			}
		}
		for idx, in := range b.Instrs {
			if _, ok := in.(*ssa.Phi); ok {
				continue
			}
			fr.instr(in, idx, &bs)
			if bs.reach == "false" {
				break
			}
		}
	}
	fr.dryStack = fr.dryStack[:len(fr.dryStack)-1]
	e.dry--
	e.lines = e.lines[:nl]
	e.obls = e.obls[:no]
	e.notes = savedNotes
	fr.edges = savedEdges
	fr.rets = savedRets
	fr.ord = savedOrd
	return d
}

func (fr *Frame) backEdge(from, to *ssa.BasicBlock, reach string, h *Heap) {
	e := fr.e
	li := fr.loops[to]
	if li.backOrd == nil {
		// ordinals by block index order of the back-edge sources
		li.backOrd = map[int]int{}
		var srcs []int
		for _, p := range to.Preds {
			if to.Dominates(p) {
				srcs = append(srcs, p.Index)
			}
		}
		sort.Ints(srcs)
		for k, s := range srcs {
			li.backOrd[s] = k + 1
		}
	}
	bo := li.backOrd[from.Index]
	if len(fr.dryStack) > 0 && fr.dryStack[len(fr.dryStack)-1].li == li {
		d := fr.dryStack[len(fr.dryStack)-1]
		for k, v := range h.dirty {
			if old, ok := d.dirty[k]; !ok || v < old {
				d.dirty[k] = v
			}
		}
		for k, s := range h.bases {
			if d.bases[k] == nil {
				d.bases[k] = map[string]bool{}
			}
			for b := range s {
				d.bases[k][b] = true
			}
		}
		if e.serial != d.serial0 {
			d.alloc = true
		}
		return
	}
	if e.dry > 0 {
		return
	}
	if li.spec == nil {
		label := fmt.Sprintf("%sloop%d", fr.callpath, li.ord)
		for _, fi := range li.frameInv {
			e.oblige(fmt.Sprintf("%s#%s:frame-keep:%s@e%d", e.topKey(), label, fi.name, bo), "frame", reach, e.frameGoal(e.harr(h, fi.name, fi.sort), fi.name, fi.refs), fr.pos(to.Instrs[0].Pos()), "loop frame preserved: "+fi.name+" unchanged outside the modifies clause", nil)
		}
		return
	}
	// inv-keep: header phis take the values flowing along this edge
	over := map[ssa.Value]Val{}
	for _, phi := range fr.headerPhis(to) {
		for k, bp := range to.Preds {
			if bp == from {
				over[phi] = fr.val(phi.Edges[k])
			}
		}
	}
	label := fmt.Sprintf("%sloop%d", fr.callpath, li.ord)
	for _, fi := range li.frameInv {
		e.oblige(fmt.Sprintf("%s#%s:frame-keep:%s@e%d", e.topKey(), label, fi.name, bo), "frame", reach, e.frameGoal(e.harr(h, fi.name, fi.sort), fi.name, fi.refs), fr.pos(to.Instrs[0].Pos()), "loop frame preserved: "+fi.name+" unchanged outside the modifies clause", nil)
	}
	for i, c := range li.spec.Invariants {
		ctx := fr.specCtx(h, to)
		ctx.override = over
		parts := ctx.evalSplit(c.Expr)
		for j, g := range parts {
			o := e.oblige(fmt.Sprintf("%s#%s:inv-keep:%d/%d@e%d", e.topKey(), label, i+1, j+1, bo), "inv-keep", reach, g, fr.pos(to.Instrs[0].Pos()), "loop invariant preserved: "+c.Src, c.Tags)
			o.Site = ctx
			if len(parts) > 1 {
				o.Group = fmt.Sprintf("%s#%s:inv-keep:%d@e%d", e.topKey(), label, i+1, bo)
			}
		}
	}
}

// ---------------------------------------------------------------------------
// Instructions
// ---------------------------------------------------------------------------

func (fr *Frame) safety(st *BState, kind string, cond string, pos token.Pos, what string) {
	e := fr.e
	if e.dry == 0 && !e.noSafety {
		e.oblige(fr.oname("safe:"+kind), "safe:"+kind, st.reach, cond, fr.pos(pos), what, nil)
	}
	// execution continues only if the check passed
	if cond != "true" {
		st.reach = e.define(fr.prefix+"R", "Bool", and(st.reach, cond))
	}
}

func (fr *Frame) set(v ssa.Value, val Val) {
	fr.env[v] = val
}

func (fr *Frame) instr(in ssa.Instruction, idx int, st *BState) {
	e := fr.e
	switch x := in.(type) {
	case *ssa.DebugRef:
		if id, ok := x.Expr.(interface{ String() string }); ok {
			_ = id
		}
		if obj := x.Object(); obj != nil {
			fr.dbg[obj.Name()] = append(fr.dbg[obj.Name()], dbgRef{block: fr.curBlock, idx: idx, val: x.X, addr: x.IsAddr})
		}
	case *ssa.Alloc:
		fr.set(x, fr.alloc(x, st))
	case *ssa.FieldAddr:
		base := fr.val(x.X)
		switch base.K {
		case kScalar:
			fr.safety(st, "nil", not(eq(base.S, "0")), x.Pos(), "nil dereference: "+x.X.Name()+"."+fieldName(x))
			nt, _ := namedStruct(x.X.Type())
			var root types.Type = x.X.Type().Underlying().(*types.Pointer).Elem()
			if nt != nil {
				root = nt
			}
			fr.set(x, Val{T: x.Type(), K: kAddr, A: &Addr{K: aField, Base: base.S, Root: root, Path: []int{x.Field}, N: -1}})
		case kAddr:
			a := *base.A
			a.Path = append(append([]int{}, a.Path...), x.Field)
			a.N = -1
			fr.set(x, Val{T: x.Type(), K: kAddr, A: &a})
		default:
			panic(unsupported("FieldAddr on value kind %d", base.K))
		}
	case *ssa.Field:
		base := fr.val(x.X)
		if base.K != kStruct {
			panic(unsupported("Field on non-struct value"))
		}
		fr.set(x, base.Fs[x.Field])
	case *ssa.IndexAddr:
		base := fr.val(x.X)
		i := fr.val(x.Index).S
		switch base.K {
		case kSlice:
			fr.safety(st, "idx", and(sx("<=", "0", i), sx("<", i, base.Len)), x.Pos(), "index out of range: "+x.X.Name()+"["+x.Index.Name()+"]")
			et := x.X.Type().Underlying().(*types.Slice).Elem()
			fr.set(x, Val{T: x.Type(), K: kAddr, A: &Addr{K: aElem, Base: base.Arr, Idx: i, Root: et, N: -1}})
		case kAddr:
			if base.A.N < 0 {
				panic(unsupported("IndexAddr on non-array address"))
			}
			fr.safety(st, "idx", and(sx("<=", "0", i), sx("<", i, num(base.A.N))), x.Pos(), "array index out of range")
			fr.set(x, Val{T: x.Type(), K: kAddr, A: &Addr{K: aElem, Base: base.A.Base, Idx: i, Root: base.A.Root, N: -1}})
		default:
			panic(unsupported("IndexAddr on value kind %d", base.K))
		}
	case *ssa.UnOp:
		fr.unop(x, st)
	case *ssa.BinOp:
		fr.set(x, fr.binop(x, st))
	case *ssa.Store:
		a := fr.val(x.Addr)
		v := fr.val(x.Val)
		switch a.K {
		case kAddr:
			fr.lockAddr(a.A, true, x.Pos(), st)
			e.storeAt(st.heap, a.A, v)
		case kScalar:
			// *p = structValue
			nt, _ := namedStruct(x.Addr.Type())
			if nt == nil {
				panic(unsupported("store through plain pointer %s", x.Addr.Name()))
			}
			fr.safety(st, "nil", not(eq(a.S, "0")), x.Pos(), "nil dereference in store")
			e.storeAt(st.heap, &Addr{K: aField, Base: a.S, Root: nt, N: -1}, v)
		default:
			panic(unsupported("store to value kind %d", a.K))
		}
	case *ssa.Phi:
	case *ssa.Slice:
		fr.set(x, fr.sliceOp(x, st))
	case *ssa.MakeSlice:
		h := st.heap
		r := e.newRef(h, fr.vname(x)+"#arr")
		et := x.Type().Underlying().(*types.Slice).Elem()
		for _, c := range flatten(et) {
			n := elemArr(et, nil, c)
			s := arrSort('E', c.Sort)
			e.hset(h, n, s, store(e.harr(h, n, s), r, fmt.Sprintf("((as const (Array Int %s)) %s)", c.Sort, zeroTerm(c.Sort))), r)
		}
		ln := fr.val(x.Len).S
		fr.safety(st, "slice", sx(">=", ln, "0"), x.Pos(), "makeslice: len out of range")
		fr.set(x, Val{T: x.Type(), K: kSlice, Arr: r, Len: ln})
	case *ssa.MakeMap:
		h := st.heap
		r := e.newRef(h, fr.vname(x)+"#map")
		mt := x.Type().Underlying().(*types.Map)
		dn, ln := mapDom(mt), mapLen(mt)
		e.hset(h, dn, arrSort('D', ""), store(e.harr(h, dn, arrSort('D', "")), r, "((as const (Array Int Bool)) false)"), r)
		e.hset(h, ln, arrSort('L', ""), store(e.harr(h, ln, arrSort('L', "")), r, "0"), r)
		fr.set(x, scalar(x.Type(), r))
	case *ssa.MakeInterface:
		v := fr.val(x.X)
		if v.K == kScalar {
			switch x.X.Type().Underlying().(type) {
			case *types.Pointer:
				// a typed nil pointer inside an interface would compare != nil in Go: exclude it
				fr.safety(st, "typednil", not(eq(v.S, "0")), x.Pos(), "nil pointer converted to interface (would be != nil)")
				fr.set(x, scalar(x.Type(), v.S))
				return
			case *types.Interface:
				fr.set(x, scalar(x.Type(), v.S))
				return
			}
		}
		// boxed non-pointer: opaque
		o := e.newRef(st.heap, fr.vname(x)+"#box")
		bv := scalar(x.Type(), o)
		boxed := v
		bv.Box = &boxed
		fr.set(x, bv)
	case *ssa.MakeClosure:
		var bs []Val
		for _, b := range x.Bindings {
			bs = append(bs, fr.val(b))
		}
		fr.set(x, Val{T: x.Type(), K: kClosure, Fn: x.Fn.(*ssa.Function), Fs: bs})
	case *ssa.ChangeType:
		v := fr.val(x.X)
		v.T = x.Type()
		fr.set(x, v)
	case *ssa.ChangeInterface:
		v := fr.val(x.X)
		v.T = x.Type()
		fr.set(x, v)
	case *ssa.Convert:
		fr.set(x, fr.convert(x, st))
	case *ssa.TypeAssert:
		v := fr.val(x.X)
		if v.K != kScalar {
			panic(unsupported("type assert on non-scalar"))
		}
		res := scalar(x.AssertedType, v.S)
		if x.CommaOk {
			fr.set(x, Val{T: x.Type(), K: kTuple, Fs: []Val{res, scalar(types.Typ[types.Bool], not(eq(v.S, "0")))}})
		} else {
			fr.safety(st, "assert", not(eq(v.S, "0")), x.Pos(), "type assertion on nil interface")
			fr.set(x, res)
		}
	case *ssa.Extract:
		t := fr.val(x.Tuple)
		fr.set(x, t.Fs[x.Index])
	case *ssa.Lookup:
		fr.set(x, fr.lookup(x, st))
	case *ssa.MapUpdate:
		fr.mapUpdate(x, st)
	case *ssa.Range:
		mv := fr.val(x.X)
		mt, ok := x.X.Type().Underlying().(*types.Map)
		if !ok {
			panic(unsupported("range over string"))
		}
		itn := "IT_" + fr.vname(x)
		e.hset(st.heap, itn, "(Array Int Bool)", "((as const (Array Int Bool)) false)", "")
		fr.set(x, Val{T: x.Type(), K: kIter, It: &Iter{MapRef: mv.S, MT: mt, Visited: itn}})
	case *ssa.Next:
		fr.set(x, fr.next(x, st))
	case *ssa.Call:
		r := fr.call(&x.Call, x, st)
		fr.set(x, r)
	case *ssa.Defer:
		cc := x.Call
		// capture argument values now
		var saved []Val
		for _, a := range cc.Args {
			saved = append(saved, fr.val(a))
		}
		var recv Val
		if cc.IsInvoke() {
			recv = fr.val(cc.Value)
		} else if _, isFn := cc.Value.(*ssa.Function); !isFn {
			if _, isB := cc.Value.(*ssa.Builtin); !isB {
				recv = fr.val(cc.Value)
			}
		}
		if fr.curBlock.Index != 0 {
			panic(unsupported("defer outside the entry block"))
		}
		ccCopy := cc
		fr.defers = append(fr.defers, func(s *BState) {
			fr.callWith(&ccCopy, x, s, saved, recv, true)
		})
	case *ssa.RunDefers:
		for i := len(fr.defers) - 1; i >= 0; i-- {
			fr.defers[i](st)
		}
	case *ssa.Return:
		var vs []Val
		for _, r := range x.Results {
			vs = append(vs, fr.val(r))
		}
		fr.rets = append(fr.rets, retInfo{reach: st.reach, heap: st.heap, vals: vs})
		st.reach = "false"
	case *ssa.Panic:
		if e.dry == 0 {
			e.oblige(fr.oname("safe:panic"), "safe:panic", st.reach, "false", fr.pos(x.Pos()), "explicit panic reachable", nil)
		}
		st.reach = "false"
	case *ssa.Jump:
		fr.setEdge(fr.curBlock, fr.curBlock.Succs[0], st.reach, st.heap)
	case *ssa.If:
		c := fr.val(x.Cond).S
		tb, fb := fr.curBlock.Succs[0], fr.curBlock.Succs[1]
		rt := e.define(fmt.Sprintf("%sE%d_%d", fr.prefix, fr.curBlock.Index, tb.Index), "Bool", and(st.reach, c))
		rf := e.define(fmt.Sprintf("%sE%d_%d", fr.prefix, fr.curBlock.Index, fb.Index), "Bool", and(st.reach, not(c)))
		if tb == fb {
			fr.setEdge(fr.curBlock, tb, st.reach, st.heap)
		} else {
			fr.setEdge(fr.curBlock, tb, rt, st.heap)
			fr.setEdge(fr.curBlock, fb, rf, st.heap.clone())
		}
	default:
		panic(unsupported("instruction %T (%s) in %s", in, in, fr.fn.Name()))
	}
}

func fieldName(x *ssa.FieldAddr) string {
	st := x.X.Type().Underlying().(*types.Pointer).Elem().Underlying().(*types.Struct)
	return st.Field(x.Field).Name()
}

func mapDom(mt *types.Map) string { return "MD_" + typeKey(mt) }
func mapLen(mt *types.Map) string { return "ML_" + typeKey(mt) }
func mapVal(mt *types.Map, c Comp) string {
	return regRef("MV_"+typeKey(mt)+c.Suffix, c, 2)
}

func (fr *Frame) alloc(x *ssa.Alloc, st *BState) Val {
	e := fr.e
	h := st.heap
	t := x.Type().Underlying().(*types.Pointer).Elem()
	if at, ok := t.Underlying().(*types.Array); ok {
		r := e.newRef(h, fr.vname(x)+"#arr")
		et := at.Elem()
		for _, c := range flatten(et) {
			n := elemArr(et, nil, c)
			s := arrSort('E', c.Sort)
			e.hset(h, n, s, store(e.harr(h, n, s), r, fmt.Sprintf("((as const (Array Int %s)) %s)", c.Sort, zeroTerm(c.Sort))), r)
		}
		return Val{T: x.Type(), K: kAddr, A: &Addr{K: aCell, Base: r, Root: et, N: at.Len()}}
	}
	if _, ok := t.Underlying().(*types.Struct); ok {
		r := e.newRef(h, fr.vname(x)+"#ref")
		a := &Addr{K: aField, Base: r, Root: t, N: -1}
		e.storeAt(h, a, zeroVal(t))
		return scalar(x.Type(), r)
	}
	r := e.newRef(h, fr.vname(x)+"#cell")
	a := &Addr{K: aCell, Base: r, Root: t, N: -1}
	e.storeAt(h, a, zeroVal(t))
	return Val{T: x.Type(), K: kAddr, A: a}
}

func (fr *Frame) unop(x *ssa.UnOp, st *BState) {
	e := fr.e
	v := fr.val(x.X)
	switch x.Op {
	case token.MUL:
		var r Val
		switch v.K {
		case kAddr:
			fr.lockAddr(v.A, false, x.Pos(), st)
			r = e.loadAt(st.heap, v.A)
		case kScalar:
			nt, _ := namedStruct(x.X.Type())
			if nt == nil {
				panic(unsupported("load through plain pointer %s in %s", x.X.Name(), fr.fn.Name()))
			}
			fr.safety(st, "nil", not(eq(v.S, "0")), x.Pos(), "nil dereference in load")
			r = e.loadAt(st.heap, &Addr{K: aField, Base: v.S, Root: nt, N: -1})
		default:
			panic(unsupported("load from value kind %d", v.K))
		}
		g := r.Glob
		r = e.nameVal(fr.vname(x), r)
		r.Glob = g
		r.T = x.Type()
		if g == nil {
			e.assume("true", e.typeFacts(r, st.heap))
		}
		fr.set(x, r)
	case token.NOT:
		fr.set(x, scalar(x.Type(), not(v.S)))
	case token.SUB:
		if v.K == kRat {
			fr.set(x, Val{T: x.Type(), K: kRat, Num: sx("-", v.Num), Den: v.Den, Sp: v.Sp, Inf: v.NInf, NInf: v.Inf})
		} else {
			fr.set(x, scalar(x.Type(), sx("-", v.S)))
		}
	default:
		panic(unsupported("unary operator %s", x.Op))
	}
}

func isFloat(t types.Type) bool {
	b, ok := t.Underlying().(*types.Basic)
	return ok && b.Info()&types.IsFloat != 0
}
func isString(t types.Type) bool {
	b, ok := t.Underlying().(*types.Basic)
	return ok && b.Info()&types.IsString != 0
}
func isUnsigned(t types.Type) bool {
	b, ok := t.Underlying().(*types.Basic)
	return ok && b.Info()&types.IsUnsigned != 0
}

func truncDiv(a, b string) string {
	// Go's integer division truncates toward zero; SMT-LIB div floors for positive divisors.
	q := sx("div", sx("abs", a), sx("abs", b))
	return ite(eq(sx("<", a, "0"), sx("<", b, "0")), q, sx("-", q))
}

func (fr *Frame) binop(x *ssa.BinOp, st *BState) Val {
	e := fr.e
	a, b := fr.val(x.X), fr.val(x.Y)
	t := x.Type()
	if a.K == kRat && b.K == kRat {
		return fr.ratOp(x, a, b, st)
	}
	switch x.Op {
	case token.EQL, token.NEQ:
		var r string
		if a.K == kAddr || b.K == kAddr || a.K == kClosure || b.K == kClosure {
			panic(unsupported("comparison of addresses/functions"))
		}
		ca, cb := comps(a), comps(b)
		if a.K == kSlice || b.K == kSlice {
			// only comparison with nil is legal in Go
			if a.K == kSlice && b.K == kSlice {
				r = eq(a.Arr, b.Arr)
				if b.Arr == "0" {
					r = and(eq(a.Arr, "0"))
				}
			}
		} else {
			var es []string
			for i := range ca {
				es = append(es, eq(ca[i], cb[i]))
			}
			r = and(es...)
		}
		if x.Op == token.NEQ {
			r = not(r)
		}
		return scalar(t, r)
	case token.LSS, token.LEQ, token.GTR, token.GEQ:
		if isString(x.X.Type()) {
			panic(unsupported("string ordering"))
		}
		op := map[token.Token]string{token.LSS: "<", token.LEQ: "<=", token.GTR: ">", token.GEQ: ">="}[x.Op]
		return scalar(t, sx(op, a.S, b.S))
	case token.ADD:
		if isString(t) {
			e.strUsed = true
			return scalar(t, sx("gstr.cat", a.S, b.S))
		}
		return scalar(t, sx("+", a.S, b.S))
	case token.SUB:
		return scalar(t, sx("-", a.S, b.S))
	case token.MUL:
		_, ca := x.X.(*ssa.Const)
		_, cb := x.Y.(*ssa.Const)
		if e.opaqueMul && !ca && !cb {
			// sound: whatever is proved holds for every interpretation of umul, multiplication included
			e.decls2("(declare-fun umul (Int Int) Int)")
			e.note("opaquemul: products of two non-constant integers are an uninterpreted function of their factors in this function")
			return scalar(t, sx("umul", a.S, b.S))
		}
		return scalar(t, sx("*", a.S, b.S))
	case token.QUO:
		fr.safety(st, "div", not(eq(b.S, "0")), x.Pos(), "integer division by zero")
		if isUnsigned(t) {
			return scalar(t, sx("div", a.S, b.S))
		}
		return scalar(t, truncDiv(a.S, b.S))
	case token.REM:
		fr.safety(st, "div", not(eq(b.S, "0")), x.Pos(), "integer modulo by zero")
		if isUnsigned(t) {
			return scalar(t, sx("mod", a.S, b.S))
		}
		return scalar(t, sx("-", a.S, sx("*", b.S, truncDiv(a.S, b.S))))
	case token.SHL:
		if c, ok := x.Y.(*ssa.Const); ok {
			return scalar(t, sx("*", a.S, num(1<<uint(c.Int64()))))
		}
		if ca, ok := x.X.(*ssa.Const); ok && ca.Int64() == 1 {
			e.decls2("(define-fun-rec pow2 ((k Int)) Int (ite (<= k 0) 1 (* 2 (pow2 (- k 1)))))")
			return scalar(t, sx("pow2", b.S))
		}
	}
	panic(unsupported("binary operator %s in %s", x.Op, fr.fn.Name()))
}

func (e *Enc) decls2(d string) {
	for _, x := range e.decls {
		if x == d {
			return
		}
	}
	e.decls = append(e.decls, d)
}

func (fr *Frame) convert(x *ssa.Convert, st *BState) Val {
	v := fr.val(x.X)
	from, to := x.X.Type().Underlying(), x.Type().Underlying()
	fb, ok1 := from.(*types.Basic)
	tb, ok2 := to.(*types.Basic)
	if ok1 && ok2 {
		switch {
		case fb.Info()&types.IsInteger != 0 && tb.Info()&types.IsInteger != 0:
			fr.e.note("A4: integer conversions treated as value-preserving (machine arithmetic as mathematical)")
			return scalar(x.Type(), v.S)
		case fb.Info()&types.IsInteger != 0 && tb.Info()&types.IsFloat != 0:
			fr.e.note("A6: float64 values are exact rationals (int->float64 conversion exact, no rounding)")
			return Val{T: x.Type(), K: kRat, Num: v.S, Den: "1"}
		case fb.Info()&types.IsFloat != 0 && tb.Info()&types.IsInteger != 0:
			fr.e.note("A6: float64 values are exact rationals (float64->int is exact truncation)")
			res := v.Num
			if v.Den != "1" {
				res = truncDiv(v.Num, v.Den)
			}
			if spOf(v) != "false" || infOf(v) != "false" || ninfOf(v) != "false" {
				arb := fr.e.fresh(fr.vname(x)+"#nan2int", "Int")
				res = ite(or(spOf(v), infOf(v), ninfOf(v)), arb, res)
			}
			return scalar(x.Type(), fr.e.define(fr.vname(x), "Int", res))
		case fb.Info()&types.IsFloat != 0 && tb.Info()&types.IsFloat != 0:
			v.T = x.Type()
			return v
		case fb.Info()&types.IsString != 0 && tb.Info()&types.IsString != 0:
			return scalar(x.Type(), v.S)
		}
	}
	if _, ok := from.(*types.Slice); ok {
		if _, ok := to.(*types.Slice); ok {
			v.T = x.Type()
			return v
		}
	}
	panic(unsupported("conversion %v -> %v", x.X.Type(), x.Type()))
}

func (fr *Frame) sliceOp(x *ssa.Slice, st *BState) Val {
	e := fr.e
	base := fr.val(x.X)
	var lo, hi string
	if x.Low != nil {
		lo = fr.val(x.Low).S
	}
	if x.High != nil {
		hi = fr.val(x.High).S
	}
	if isString(x.X.Type()) {
		e.strUsed = true
		if lo == "" {
			lo = "0"
		}
		if hi == "" {
			hi = sx("gstr.len", base.S)
		}
		fr.safety(st, "slice", and(sx("<=", "0", lo), sx("<=", lo, hi), sx("<=", hi, sx("gstr.len", base.S))), x.Pos(), "string slice bounds out of range")
		return scalar(x.Type(), sx("gstr.sub", base.S, lo, hi))
	}
	var arr, ln string
	var et types.Type
	switch base.K {
	case kAddr:
		if base.A.N < 0 {
			panic(unsupported("slice of non-array address"))
		}
		arr, ln = base.A.Base, num(base.A.N)
		et = base.A.Root
	case kSlice:
		arr, ln = base.Arr, base.Len
		et = x.X.Type().Underlying().(*types.Slice).Elem()
	default:
		panic(unsupported("slice of value kind %d", base.K))
	}
	if hi == "" {
		hi = ln
	}
	lo0 := lo
	if lo0 == "" {
		lo0 = "0"
	}
	fr.safety(st, "slice", and(sx("<=", "0", lo0), sx("<=", lo0, hi), sx("<=", hi, ln)), x.Pos(), fmt.Sprintf("slice bounds out of range: %s[%s:%s]", x.X.Name(), nm(x.Low), nm(x.High)))
	if lo == "" || lo == "0" {
		return Val{T: x.Type(), K: kSlice, Arr: arr, Len: hi}
	}
	// shifted copy into a fresh backing array (offsets are always 0 in this model)
	h := st.heap
	r := e.newRef(h, fr.vname(x)+"#arr")
	for _, c := range flatten(et) {
		n := elemArr(et, nil, c)
		s := arrSort('E', c.Sort)
		H := e.harr(h, n, s)
		inner := e.fresh(fr.vname(x)+"#inner"+c.Suffix, "(Array Int "+c.Sort+")")
		e.assume("true", fmt.Sprintf("(forall ((i Int)) (! (= (select %s i) (select (select %s %s) (+ i %s))) :pattern ((select %s i))))", inner, H, arr, lo, inner))
		e.hset(h, n, s, store(H, r, inner), r)
	}
	e.note("slices s[a:b] with a>0 are modelled as shifted copies (no write-through aliasing between a slice and its sub-slices)")
	return Val{T: x.Type(), K: kSlice, Arr: r, Len: e.define(fr.vname(x)+"#len", "Int", sx("-", hi, lo))}
}

func nm(v ssa.Value) string {
	if v == nil {
		return ""
	}
	return v.Name()
}

func (fr *Frame) lookup(x *ssa.Lookup, st *BState) Val {
	e := fr.e
	m := fr.val(x.X)
	k := fr.val(x.Index)
	mt, ok := x.X.Type().Underlying().(*types.Map)
	if !ok {
		panic(unsupported("string indexing"))
	}
	var v Val
	var okT string
	if m.Glob != nil {
		tab := e.P.globalTable(m.Glob)
		cs := flatten(mt.Elem())
		if len(cs) != 1 {
			panic(unsupported("table with composite values"))
		}
		t := zeroTerm(cs[0].Sort)
		var oks []string
		for i := len(tab.Keys) - 1; i >= 0; i-- {
			t = ite(eq(k.S, tab.Keys[i]), tab.Vals[i], t)
		}
		for i := range tab.Keys {
			oks = append(oks, eq(k.S, tab.Keys[i]))
		}
		v = scalar(mt.Elem(), e.define(fr.vname(x), cs[0].Sort, t))
		okT = or(oks...)
	} else {
		h := st.heap
		fr.lockAccess(mapDom(mt), false, x.Pos(), st)
		D := sel(e.harr(h, mapDom(mt), arrSort('D', "")), m.S)
		okT = e.define(fr.vname(x)+"#ok", "Bool", sel(D, k.S))
		cs := flatten(mt.Elem())
		ts := make([]string, len(cs))
		for i, c := range cs {
			V := sel(e.harr(h, mapVal(mt, c), arrSort('V', c.Sort)), m.S)
			ts[i] = e.define(fr.vname(x)+c.Suffix, c.Sort, ite(okT, sel(V, k.S), zeroTerm(c.Sort)))
		}
		v, _ = fromComps(mt.Elem(), ts)
		e.assume("true", e.typeFacts(v, h))
	}
	if x.CommaOk {
		return Val{T: x.Type(), K: kTuple, Fs: []Val{v, scalar(types.Typ[types.Bool], okT)}}
	}
	return v
}

func (fr *Frame) mapUpdate(x *ssa.MapUpdate, st *BState) {
	e := fr.e
	m := fr.val(x.Map)
	k := fr.val(x.Key)
	v := fr.val(x.Value)
	mt := x.Map.Type().Underlying().(*types.Map)
	fr.safety(st, "nilmap", not(eq(m.S, "0")), x.Pos(), "assignment to entry in nil map")
	fr.lockAccess(mapDom(mt), true, x.Pos(), st)
	e.mapStore(st.heap, mt, m.S, k.S, v)
}

func (e *Enc) mapStore(h *Heap, mt *types.Map, m, k string, v Val) {
	dn, ln := mapDom(mt), mapLen(mt)
	DH := e.harr(h, dn, arrSort('D', ""))
	LH := e.harr(h, ln, arrSort('L', ""))
	D := sel(DH, m)
	had := sel(D, k)
	e.hset(h, ln, arrSort('L', ""), store(LH, m, ite(had, sel(LH, m), sx("+", sel(LH, m), "1"))), m)
	Dold := e.define("mapdom.old", "(Array Int Bool)", D)
	Dnew := e.define("mapdom.new", "(Array Int Bool)", store(Dold, k, "true"))
	e.hset(h, dn, arrSort('D', ""), store(DH, m, Dnew), m)
	// instantiation hints (consequences of the array theory): facts about the old map carry over to the new one
	e.assume("true", fmt.Sprintf("(forall ((i Int)) (! (= (select %s i) (or (select %s i) (= i %s))) :pattern ((select %s i))))", Dnew, Dold, k, Dold))
	cs := flatten(mt.Elem())
	vs := comps(v)
	for i, c := range cs {
		n := mapVal(mt, c)
		s := arrSort('V', c.Sort)
		VH := e.harr(h, n, s)
		Vold := e.define("mapval.old", "(Array Int "+c.Sort+")", sel(VH, m))
		Vnew := e.define("mapval.new", "(Array Int "+c.Sort+")", store(Vold, k, vs[i]))
		e.hset(h, n, s, store(VH, m, Vnew), m)
		e.assume("true", fmt.Sprintf("(forall ((i Int)) (! (=> (not (= i %s)) (= (select %s i) (select %s i))) :pattern ((select %s i))))", k, Vnew, Vold, Vold))
	}
}

func (e *Enc) mapDelete(h *Heap, mt *types.Map, m, k string) {
	dn, ln := mapDom(mt), mapLen(mt)
	DH := e.harr(h, dn, arrSort('D', ""))
	LH := e.harr(h, ln, arrSort('L', ""))
	D := sel(DH, m)
	had := sel(D, k)
	e.hset(h, ln, arrSort('L', ""), store(LH, m, ite(had, sx("-", sel(LH, m), "1"), sel(LH, m))), m)
	e.hset(h, dn, arrSort('D', ""), store(DH, m, store(D, k, "false")), m)
}

func (fr *Frame) next(x *ssa.Next, st *BState) Val {
	e := fr.e
	it := fr.val(x.Iter)
	if it.K != kIter {
		panic(unsupported("next on non-map iterator"))
	}
	h := st.heap
	mt := it.It.MT
	fr.lockAccess(mapDom(mt), false, x.Pos(), st)
	V := e.harr(h, it.It.Visited, "(Array Int Bool)")
	D := e.define(fr.vname(x)+"#dom", "(Array Int Bool)", sel(e.harr(h, mapDom(mt), arrSort('D', "")), it.It.MapRef))
	// visited ⊆ dom
	e.assume("true", fmt.Sprintf("(forall ((k Int)) (! (=> (select %s k) (select %s k)) :pattern ((select %s k))))", V, D, V))
	ok := e.fresh(fr.vname(x)+"#ok", "Bool")
	kt := e.freshVal(fr.vname(x)+"#k", mt.Key())
	e.assume(st.reach, implies(ok, and(sel(D, kt.S), not(sel(V, kt.S)))))
	e.assume(st.reach, implies(not(ok), fmt.Sprintf("(forall ((k Int)) (! (=> (select %s k) (select %s k)) :pattern ((select %s k))))", D, V, D)))
	e.assume("true", e.typeFacts(kt, h))
	cs := flatten(mt.Elem())
	ts := make([]string, len(cs))
	for i, c := range cs {
		ts[i] = e.define(fr.vname(x)+"#v"+c.Suffix, c.Sort, sel(sel(e.harr(h, mapVal(mt, c), arrSort('V', c.Sort)), it.It.MapRef), kt.S))
	}
	vt, _ := fromComps(mt.Elem(), ts)
	e.assume("true", e.typeFacts(vt, h))
	e.hset(h, it.It.Visited, "(Array Int Bool)", ite(ok, store(V, kt.S, "true"), V), "")
	e.note("map iteration order is universally quantified (ghost visited set)")
	return Val{T: x.Type(), K: kTuple, Fs: []Val{scalar(types.Typ[types.Bool], ok), kt, vt}}
}

type frameInvItem struct {
	name, sort string
	refs       []string
}

// topModifies resolves the modifies clause of the function being verified in its entry state.
func (e *Enc) topModifies() (map[string]string, []cellMod, bool) {
	if e.top == nil || e.top.spec == nil || !e.top.spec.HasMod || e.topNames == nil {
		return nil, nil, false
	}
	if e.modWhole == nil {
		e.modWhole, e.modCells = e.resolveModifies(e.top.spec, e.topNames, e.h0)
	}
	return e.modWhole, e.modCells, true
}

func (e *Enc) frameGoal(H, name string, refs []string) string {
	e.names["fr"]++
	r := e.fresh(fmt.Sprintf("frame.r%d", e.names["fr"]), "Int")
	var excl []string
	for _, ref := range refs {
		excl = append(excl, not(eq(r, ref)))
	}
	ini := e.declare(name+"@0", e.hsort(name))
	return implies(and(append([]string{sx("<=", r, q("alloc@0"))}, excl...)...), eq(sel(H, r), sel(ini, r)))
}

func (e *Enc) frameFact(H, name string, refs []string) string {
	var excl []string
	for _, ref := range refs {
		excl = append(excl, not(eq("r", ref)))
	}
	ini := e.declare(name+"@0", e.hsort(name))
	return fmt.Sprintf("(forall ((r Int)) (! (=> %s (= (select %s r) (select %s r))) :pattern ((select %s r))))", and(append([]string{sx("<=", "r", q("alloc@0"))}, excl...)...), H, ini, H)
}

// ratOp: arithmetic and comparison on float64 values modelled as exact rationals num/den with den > 0,
// plus a "special" flag for NaN/Inf (division by zero). A special value may flow into int conversions
// (arbitrary result) but comparing one is an obligation failure (safe:fcmp).
func infOf(v Val) string {
	if v.Inf == "" {
		return "false"
	}
	return v.Inf
}

func ninfOf(v Val) string {
	if v.NInf == "" {
		return "false"
	}
	return v.NInf
}

func spOf(v Val) string {
	if v.Sp == "" {
		return "false"
	}
	return v.Sp
}

func (fr *Frame) ratOp(x *ssa.BinOp, a, b Val, st *BState) Val {
	t := x.Type()
	mul := func(p, q string) string {
		if p == "1" {
			return q
		}
		if q == "1" {
			return p
		}
		return sx("*", p, q)
	}
	l, r := mul(a.Num, b.Den), mul(b.Num, a.Den) // a ? b  <=>  l ? r   (dens positive)
	sp := or(spOf(a), spOf(b))
	fa := and(not(infOf(a)), not(ninfOf(a)))
	fb := and(not(infOf(b)), not(ninfOf(b)))
	fin := and(fa, fb)
	anyInf := or(infOf(a), ninfOf(a), infOf(b), ninfOf(b))
	// IEEE semantics: ordered comparisons with NaN are false, != is true; +-Inf compare as expected
	lt := and(not(sp), or(and(ninfOf(a), not(ninfOf(b))), and(infOf(b), not(infOf(a))), and(fin, sx("<", l, r))))
	le := and(not(sp), or(ninfOf(a), infOf(b), and(fin, sx("<=", l, r))))
	gt := and(not(sp), or(and(ninfOf(b), not(ninfOf(a))), and(infOf(a), not(infOf(b))), and(fin, sx(">", l, r))))
	ge := and(not(sp), or(ninfOf(b), infOf(a), and(fin, sx(">=", l, r))))
	eqt := and(not(sp), or(and(infOf(a), infOf(b)), and(ninfOf(a), ninfOf(b)), and(fin, eq(l, r))))
	arith := func() {
		if anyInf != "false" {
			fr.safety(st, "finf", not(anyInf), x.Pos(), "float64 arithmetic on an infinite value (not modelled)")
		}
	}
	switch x.Op {
	case token.EQL:
		return scalar(t, eqt)
	case token.NEQ:
		return scalar(t, not(eqt))
	case token.LSS:
		return scalar(t, lt)
	case token.LEQ:
		return scalar(t, le)
	case token.GTR:
		return scalar(t, gt)
	case token.GEQ:
		return scalar(t, ge)
	case token.ADD:
		arith()
		return Val{T: t, K: kRat, Num: sx("+", l, r), Den: mul(a.Den, b.Den), Sp: sp}
	case token.SUB:
		arith()
		return Val{T: t, K: kRat, Num: sx("-", l, r), Den: mul(a.Den, b.Den), Sp: sp}
	case token.MUL:
		arith()
		return Val{T: t, K: kRat, Num: mul(a.Num, b.Num), Den: mul(a.Den, b.Den), Sp: sp}
	case token.QUO:
		arith()
		pos := sx(">", b.Num, "0")
		fr.e.note("A6: float64 division by zero follows IEEE (0/0 NaN, x/0 +-Inf; ordered comparisons with NaN false; int(NaN/Inf) arbitrary); negative divisors are reported as safe:fdiv")
		fr.safety(st, "fdiv", or(sx(">=", b.Num, "0"), spOf(b)), x.Pos(), "float64 division by a negative value (not modelled)")
		zero := eq(b.Num, "0")
		return Val{T: t, K: kRat, Num: mul(a.Num, b.Den), Den: ite(pos, mul(a.Den, b.Num), "1"),
			Sp:   fr.e.define(fr.vname(x)+"#nan", "Bool", or(sp, and(zero, eq(a.Num, "0")))),
			Inf:  fr.e.define(fr.vname(x)+"#pinf", "Bool", and(zero, sx(">", a.Num, "0"))),
			NInf: fr.e.define(fr.vname(x)+"#ninf", "Bool", and(zero, sx("<", a.Num, "0")))}
	}
	panic(unsupported("float operator %s", x.Op))
}
