package main

import (
	"fmt"
	"go/constant"
	"go/types"
	"strings"

	"golang.org/x/tools/go/ssa"
)

type SpecCtx struct {
	e        *Enc
	fr       *Frame
	names    map[string]Val
	bound    map[string]Val
	heap     *Heap
	old      *Heap
	pkg      string
	at       *ssa.BasicBlock
	override map[ssa.Value]Val
	atIdx    int // instruction index inside `at` up to which local definitions are visible (0 = block start)
	inOld    bool
	noLemma  bool
	inFun    *FunDef
}

type SpecError struct{ Msg string }

func (s SpecError) Error() string { return s.Msg }

func specErr(f string, a ...interface{}) SpecError { return SpecError{fmt.Sprintf(f, a...)} }

// specCtx builds the context for invariants/asserts inside a function body.
func (fr *Frame) specCtx(h *Heap, at *ssa.BasicBlock) *SpecCtx {
	names := map[string]Val{}
	sp := fr.e.P.Specs[funcKey(fr.fn)]
	if sp != nil {
		for i, n := range sp.Params {
			if i < len(fr.params) {
				names[n] = fr.params[i]
			}
		}
	}
	for i, p := range fr.fn.Params {
		if _, ok := names[p.Name()]; !ok {
			names[p.Name()] = fr.params[i]
		}
	}
	pkg := ""
	if fr.fn.Pkg != nil {
		pkg = fr.fn.Pkg.Pkg.Name()
	}
	return &SpecCtx{e: fr.e, fr: fr, names: names, heap: h, old: fr.entry, pkg: pkg, at: at}
}

func (c *SpecCtx) curHeap() *Heap {
	if c.inOld {
		return c.old
	}
	return c.heap
}

func (c *SpecCtx) evalBool(n *SNode) string {
	v := c.eval(n)
	if v.K != kScalar {
		panic(specErr("boolean expected: %s", n.Src))
	}
	return v.S
}

var tInt = types.Typ[types.Int]
var tBool = types.Typ[types.Bool]

func (P *Program) parseType(pkg, s string) types.Type {
	s = strings.TrimSpace(s)
	switch {
	case strings.HasPrefix(s, "*"):
		return types.NewPointer(P.parseType(pkg, s[1:]))
	case strings.HasPrefix(s, "[]"):
		return types.NewSlice(P.parseType(pkg, s[2:]))
	case strings.HasPrefix(s, "map["):
		k := strings.Index(s, "]")
		return types.NewMap(P.parseType(pkg, s[4:k]), P.parseType(pkg, s[k+1:]))
	}
	if k := strings.Index(s, "."); k >= 0 {
		pkg, s = s[:k], s[k+1:]
	}
	if o := types.Universe.Lookup(s); o != nil {
		return o.Type()
	}
	p := P.Pkgs[pkg]
	if p == nil {
		panic(specErr("unknown package %q in type", pkg))
	}
	o := p.Types.Scope().Lookup(s)
	if o == nil {
		panic(specErr("unknown type %s.%s", pkg, s))
	}
	return o.Type()
}

// resolveLocal finds the SSA value a source-level local name denotes at block `at`.
func (c *SpecCtx) resolveLocal(name string) (Val, bool) {
	fr := c.fr
	if fr == nil || c.at == nil {
		return Val{}, false
	}
	if name == "loopvar" {
		// role-based name (robust against renaming): the induction variable of the loop whose header is being
		// evaluated = the one header phi the loop condition depends on
		var phis []*ssa.Phi
		for _, in := range c.at.Instrs {
			if phi, ok := in.(*ssa.Phi); ok {
				phis = append(phis, phi)
			}
		}
		iff, _ := c.at.Instrs[len(c.at.Instrs)-1].(*ssa.If)
		if iff == nil || len(phis) == 0 {
			return Val{}, false
		}
		used := map[*ssa.Phi]bool{}
		seen := map[ssa.Value]bool{}
		var walk func(v ssa.Value, depth int)
		walk = func(v ssa.Value, depth int) {
			if v == nil || seen[v] || depth > 6 {
				return
			}
			seen[v] = true
			if p, ok := v.(*ssa.Phi); ok && p.Block() == c.at {
				used[p] = true
				return
			}
			if in, ok := v.(ssa.Instruction); ok && in.Block() == c.at {
				for _, op := range in.Operands(nil) {
					if *op != nil {
						walk(*op, depth+1)
					}
				}
			}
		}
		walk(iff.Cond, 0)
		var only *ssa.Phi
		for _, p := range phis {
			if used[p] && p.Comment != "rangeindex" {
				if only != nil {
					return Val{}, false
				}
				only = p
			}
		}
		if only == nil {
			return Val{}, false
		}
		if v, ok := c.override[only]; ok {
			return v, true
		}
		return fr.val(only), true
	}
	// a variable that lives in a memory cell (address-taken / captured by a closure) is always read through its
	// cell in the current heap
	for _, b := range fr.fn.Blocks {
		if b != c.at && !b.Dominates(c.at) {
			continue
		}
		for _, in := range b.Instrs {
			if al, ok := in.(*ssa.Alloc); ok && al.Comment == name {
				if v, ok := fr.env[al]; ok && v.K == kAddr && v.A.N < 0 {
					return c.e.loadAt(c.curHeap(), v.A), true
				}
			}
		}
	}
	// the latest definition visible at (block, atIdx): debug references inside the block before atIdx,
	// then the block's phi named after the variable, then the nearest dominating debug reference
	var best *dbgRef
	for i := range fr.dbg[name] {
		d := &fr.dbg[name][i]
		if d.block == c.at && d.idx < c.atIdx {
			if best == nil || d.idx > best.idx {
				best = d
			}
		}
	}
	if best == nil {
		for _, in := range c.at.Instrs {
			phi, ok := in.(*ssa.Phi)
			if !ok {
				break
			}
			if phi.Comment == name {
				if v, ok := c.override[phi]; ok {
					return v, true
				}
				return fr.val(phi), true
			}
		}
		for i := range fr.dbg[name] {
			d := &fr.dbg[name][i]
			if d.block != c.at && d.block.Dominates(c.at) {
				if best == nil || best.block.Dominates(d.block) && (best.block != d.block || d.idx > best.idx) {
					best = d
				}
			}
		}
		if best == nil {
			// a phi named after the variable in the nearest dominating block (e.g. the hidden range index of an outer loop)
			var bp *ssa.Phi
			for _, b := range fr.fn.Blocks {
				if b == c.at || !b.Dominates(c.at) {
					continue
				}
				for _, in := range b.Instrs {
					phi, ok := in.(*ssa.Phi)
					if !ok {
						break
					}
					if phi.Comment == name && (bp == nil || bp.Block().Dominates(b)) {
						bp = phi
					}
				}
			}
			if bp != nil {
				if v, ok := c.override[bp]; ok {
					return v, true
				}
				return fr.val(bp), true
			}
		}
	}
	if best != nil {
		if v, ok := c.override[best.val]; ok {
			return v, true
		}
		v := fr.val(best.val)
		if best.addr && v.K == kAddr {
			return c.e.loadAt(c.curHeap(), v.A), true
		}
		return v, true
	}
	return Val{}, false
}

func (c *SpecCtx) lookupPkgObj(name string) (Val, bool) {
	pkgName := c.pkg
	p := c.e.P.Pkgs[pkgName]
	if p == nil {
		return Val{}, false
	}
	o := p.Types.Scope().Lookup(name)
	if o == nil {
		return Val{}, false
	}
	switch x := o.(type) {
	case *types.Const:
		return scalar(x.Type(), c.e.P.constTerm(x.Val(), x.Type())), true
	case *types.Var:
		sp := c.e.P.SPkgs[pkgName]
		if g, ok := sp.Members[name].(*ssa.Global); ok {
			return c.e.loadGlobal(c.curHeap(), g), true
		}
	}
	return Val{}, false
}

func (c *SpecCtx) eval(n *SNode) Val {
	e := c.e
	switch n.Op {
	case "int":
		return scalar(tInt, num(n.Int))
	case "bool":
		return scalar(tBool, n.Name)
	case "str":
		return scalar(types.Typ[types.String], num(int64(e.P.internString(n.Name))))
	case "nil":
		return Val{T: types.Typ[types.UntypedNil], K: kScalar, S: "0"}
	case "ident":
		if v, ok := c.bound[n.Name]; ok {
			return v
		}
		if v, ok := c.names[n.Name]; ok {
			return v
		}
		if a, ok := e.alias[n.Name]; ok {
			if v, ok := c.resolveLocal(a); ok {
				return v
			}
		}
		if v, ok := c.resolveLocal(n.Name); ok {
			return v
		}
		if v, ok := c.lookupPkgObj(n.Name); ok {
			return v
		}
		if n.Name == "ghost" {
			if nt := e.P.ghostType(c.pkg); nt != nil {
				return Val{T: types.NewPointer(nt), K: kScalar, S: e.ghostObj(c.pkg)}
			}
		}
		panic(specErr("unknown name %q", n.Name))
	case "old":
		saved := c.inOld
		c.inOld = true
		v := c.eval(n.Args[0])
		c.inOld = saved
		return v
	case "sel":
		// package-qualified constant?
		if id := n.Args[0]; id.Op == "ident" {
			if _, isPkg := e.P.Pkgs[id.Name]; isPkg {
				if _, shadow := c.names[id.Name]; !shadow {
					saved := c.pkg
					c.pkg = id.Name
					v, ok := c.lookupPkgObj(n.Name)
					c.pkg = saved
					if ok {
						return v
					}
				}
			}
		}
		x := c.eval(n.Args[0])
		return c.selField(x, n.Name)
	case "index":
		x := c.eval(n.Args[0])
		i := c.eval(n.Args[1])
		return c.indexVal(x, i)
	case "slice":
		panic(specErr("slice expressions are not supported in specs"))
	case "un":
		x := c.eval(n.Args[0])
		if n.Name == "!" {
			return scalar(tBool, not(x.S))
		}
		return scalar(x.T, sx("-", x.S))
	case "bin":
		return c.evalBin(n)
	case "forall", "exists":
		saved := c.bound
		nb := map[string]Val{}
		for k, v := range saved {
			nb[k] = v
		}
		var decl []string
		var facts []string
		for _, sv := range n.Vars {
			e.names["bv"]++
			vn := fmt.Sprintf("%s!%d", sv.Name, e.names["bv"])
			var t types.Type = tInt
			if sv.Type != "" && sv.Type != "int" {
				t = e.P.parseType(c.pkg, sv.Type)
			}
			cs := flatten(t)
			if len(cs) != 1 {
				panic(specErr("quantified variable %s must be scalar", sv.Name))
			}
			decl = append(decl, fmt.Sprintf("(%s %s)", q(vn), cs[0].Sort))
			nb[sv.Name] = scalar(t, q(vn))
			// note: quantified references range over all values; use allocated(q) to restrict
		}
		c.bound = nb
		body := c.evalBool(n.Args[0])
		c.bound = saved
		if n.Op == "forall" {
			return scalar(tBool, fmt.Sprintf("(forall (%s) %s)", strings.Join(decl, " "), implies(and(facts...), body)))
		}
		return scalar(tBool, fmt.Sprintf("(exists (%s) %s)", strings.Join(decl, " "), and(and(facts...), body)))
	case "call":
		return c.evalCall(n)
	}
	panic(specErr("cannot evaluate %s", n.Op))
}

func (c *SpecCtx) selField(x Val, name string) Val {
	e := c.e
	switch x.K {
	case kStruct:
		st := x.T.Underlying().(*types.Struct)
		for i := 0; i < st.NumFields(); i++ {
			if st.Field(i).Name() == name {
				return x.Fs[i]
			}
		}
		panic(specErr("no field %s in %v", name, x.T))
	case kScalar:
		ct := e.P.concreteOf(x.T)
		nt, st := namedStruct(ct)
		if nt == nil {
			panic(specErr("selector .%s on non-struct pointer type %v", name, x.T))
		}
		for i := 0; i < st.NumFields(); i++ {
			if st.Field(i).Name() == name {
				v := e.loadAt(c.curHeap(), &Addr{K: aField, Base: x.S, Root: nt, Path: []int{i}, N: -1})
				return v
			}
		}
		panic(specErr("no field %s in %v", name, nt))
	}
	panic(specErr("selector .%s on value kind %d", name, x.K))
}

func (c *SpecCtx) indexVal(x, i Val) Val {
	e := c.e
	h := c.curHeap()
	switch x.K {
	case kSlice:
		if x.Glob != nil {
			tab := e.P.globalTable(x.Glob)
			cs := flatten(tab.VT)
			t := zeroTerm(cs[0].Sort)
			for k := len(tab.Keys) - 1; k >= 0; k-- {
				t = ite(eq(i.S, tab.Keys[k]), tab.Vals[k], t)
			}
			return scalar(tab.VT, t)
		}
		et := x.T.Underlying().(*types.Slice).Elem()
		return e.loadAt(h, &Addr{K: aElem, Base: x.Arr, Idx: i.S, Root: et, N: -1})
	case kScalar:
		if mt, ok := x.T.Underlying().(*types.Map); ok {
			if x.Glob != nil {
				tab := e.P.globalTable(x.Glob)
				cs := flatten(mt.Elem())
				t := zeroTerm(cs[0].Sort)
				for k := len(tab.Keys) - 1; k >= 0; k-- {
					t = ite(eq(i.S, tab.Keys[k]), tab.Vals[k], t)
				}
				return scalar(mt.Elem(), t)
			}
			cs := flatten(mt.Elem())
			ts := make([]string, len(cs))
			for k, cc := range cs {
				ts[k] = sel(sel(e.harr(h, mapVal(mt, cc), arrSort('V', cc.Sort)), x.S), i.S)
			}
			v, _ := fromComps(mt.Elem(), ts)
			return v
		}
	}
	panic(specErr("cannot index value of type %v", x.T))
}

func isRealVal(v Val) bool {
	return v.T != nil && isFloat(v.T)
}

func (c *SpecCtx) evalBin(n *SNode) Val {
	op := n.Name
	switch op {
	case "&&":
		return scalar(tBool, and(c.evalBool(n.Args[0]), c.evalBool(n.Args[1])))
	case "||":
		return scalar(tBool, or(c.evalBool(n.Args[0]), c.evalBool(n.Args[1])))
	case "==>":
		return scalar(tBool, implies(c.evalBool(n.Args[0]), c.evalBool(n.Args[1])))
	case "<==>":
		return scalar(tBool, eq(c.evalBool(n.Args[0]), c.evalBool(n.Args[1])))
	}
	a, b := c.eval(n.Args[0]), c.eval(n.Args[1])
	switch op {
	case "==", "!=":
		var r string
		if a.K == kSlice && b.K == kScalar && b.S == "0" {
			r = eq(a.Arr, "0")
		} else if b.K == kSlice && a.K == kScalar && a.S == "0" {
			r = eq(b.Arr, "0")
		} else {
			ca, cb := comps(a), comps(b)
			if len(ca) != len(cb) {
				panic(specErr("comparison of different shapes in %s", n.Src))
			}
			var es []string
			for i := range ca {
				x, y := ca[i], cb[i]
				if isRealVal(a) != isRealVal(b) {
					if isRealVal(a) {
						y = sx("to_real", y)
					} else {
						x = sx("to_real", x)
					}
				}
				es = append(es, eq(x, y))
			}
			r = and(es...)
		}
		if op == "!=" {
			r = not(r)
		}
		return scalar(tBool, r)
	case "<", "<=", ">", ">=":
		x, y := a.S, b.S
		if isRealVal(a) != isRealVal(b) {
			if isRealVal(a) {
				y = sx("to_real", y)
			} else {
				x = sx("to_real", x)
			}
		}
		return scalar(tBool, sx(op, x, y))
	case "+", "-", "*":
		t := a.T
		if t == nil || (b.T != nil && isRealVal(b)) {
			t = b.T
		}
		x, y := a.S, b.S
		if isRealVal(a) != isRealVal(b) {
			if isRealVal(a) {
				y = sx("to_real", y)
			} else {
				x = sx("to_real", x)
			}
		}
		return scalar(t, sx(op, x, y))
	case "/":
		if isRealVal(a) || isRealVal(b) {
			x, y := a.S, b.S
			if !isRealVal(a) {
				x = sx("to_real", x)
			}
			if !isRealVal(b) {
				y = sx("to_real", y)
			}
			t := a.T
			if !isRealVal(a) {
				t = b.T
			}
			return scalar(t, sx("/", x, y))
		}
		return scalar(a.T, sx("div", a.S, b.S))
	case "%":
		return scalar(a.T, sx("mod", a.S, b.S))
	}
	panic(specErr("operator %s", op))
}

func (c *SpecCtx) evalCall(n *SNode) Val {
	e := c.e
	h := c.curHeap()
	switch n.Name {
	case "len":
		x := c.eval(n.Args[0])
		switch {
		case x.K == kSlice:
			return scalar(tInt, x.Len)
		case x.T != nil && isString(x.T):
			return scalar(tInt, sx("gstr.len", x.S))
		}
		if mt, ok := x.T.Underlying().(*types.Map); ok {
			return scalar(tInt, sel(e.harr(h, mapLen(mt), arrSort('L', "")), x.S))
		}
		panic(specErr("len of %v", x.T))
	case "sameslice":
		// the two slices are the same memory: same backing array and same length
		a, b := c.eval(n.Args[0]), c.eval(n.Args[1])
		if a.K != kSlice || b.K != kSlice {
			panic(specErr("sameslice needs two slices"))
		}
		return scalar(tBool, and(eq(a.Arr, b.Arr), eq(a.Len, b.Len)))
	case "in":
		k := c.eval(n.Args[0])
		m := c.eval(n.Args[1])
		mt, ok := m.T.Underlying().(*types.Map)
		if !ok {
			panic(specErr("in(k, m): m is not a map"))
		}
		if m.Glob != nil {
			tab := e.P.globalTable(m.Glob)
			var oks []string
			for i := range tab.Keys {
				oks = append(oks, eq(k.S, tab.Keys[i]))
			}
			return scalar(tBool, or(oks...))
		}
		return scalar(tBool, sel(sel(e.harr(h, mapDom(mt), arrSort('D', "")), m.S), k.S))
	case "seen":
		// seen(k): key k already produced by the map iteration of the innermost enclosing range loop
		k := c.eval(n.Args[0])
		itn := c.findIter()
		return scalar(tBool, sel(e.harr(h, itn, "(Array Int Bool)"), k.S))
	case "ite":
		cnd := c.evalBool(n.Args[0])
		a, b := c.eval(n.Args[1]), c.eval(n.Args[2])
		ca, cb := comps(a), comps(b)
		ts := make([]string, len(ca))
		for i := range ca {
			ts[i] = ite(cnd, ca[i], cb[i])
		}
		t := a.T
		if t == nil || t == types.Typ[types.UntypedNil] {
			t = b.T
		}
		v, _ := fromComps(t, ts)
		return v
	case "min":
		a, b := c.eval(n.Args[0]), c.eval(n.Args[1])
		return scalar(a.T, ite(sx("<=", a.S, b.S), a.S, b.S))
	case "max":
		a, b := c.eval(n.Args[0]), c.eval(n.Args[1])
		return scalar(a.T, ite(sx(">=", a.S, b.S), a.S, b.S))
	case "umul":
		// umul(a, b): the product a*b behind a function symbol whose definition is only instantiated on the ground terms a
		// query mentions (keeps nonlinear terms out of quantified invariants; the defining axiom makes it exact)
		a, b := c.eval(n.Args[0]), c.eval(n.Args[1])
		e.decls2("(declare-fun umul (Int Int) Int)")
		if !e.opaqueMul {
			e.decls2("(assert (forall ((a Int) (b Int)) (! (= (umul a b) (* a b)) :pattern ((umul a b)))))")
		}
		return scalar(a.T, sx("umul", a.S, b.S))
	case "fresh":
		// fresh(x): x was allocated after function entry
		x := c.eval(n.Args[0])
		t := x.S
		if x.K == kSlice {
			t = x.Arr
		}
		return scalar(tBool, sx(">", t, c.old.alloc))
	case "allocated":
		x := c.eval(n.Args[0])
		t := x.S
		if x.K == kSlice {
			t = x.Arr
		}
		return scalar(tBool, and(sx("<", "0", t), sx("<=", t, h.alloc)))
	case "unchanged":
		// unchanged(Type.field.path): heap array(s) identical to the pre-state
		if len(n.Args) != 1 {
			panic(specErr("unchanged takes one Type.field argument"))
		}
		var item string
		if a := n.Args[0]; a.Op == "call" && (a.Name == "elems" || a.Name == "map") {
			item = a.Name + "(" + a.Args[0].Src2() + ")"
		} else {
			item = snodePath(a)
		}
		var es []string
		for _, ns := range e.heapNamesUnder(c.pkg, item) {
			es = append(es, eq(e.harr(c.heap, ns[0], ns[1]), e.harr(c.old, ns[0], ns[1])))
		}
		return scalar(tBool, and(es...))
	case "ref":
		x := c.eval(n.Args[0])
		if x.K == kSlice {
			return scalar(tInt, x.Arr)
		}
		return scalar(tInt, x.S)
	case "real":
		x := c.eval(n.Args[0])
		if isRealVal(x) {
			return x
		}
		return scalar(types.Typ[types.Float64], sx("to_real", x.S))
	case "floor":
		x := c.eval(n.Args[0])
		return scalar(tInt, sx("to_int", x.S))
	case "ceil":
		x := c.eval(n.Args[0])
		return scalar(tInt, sx("-", sx("to_int", sx("-", x.S))))
	}
	// recursive spec function
	if fd := c.lookupFun(n.Name); fd != nil {
		return c.evalFun(fd, n)
	}
	// predicate (macro)
	pd := e.P.Preds[c.pkg+"."+n.Name]
	if strings.Contains(n.Name, ".") {
		pd = e.P.Preds[n.Name]
	}
	if pd == nil {
		for _, cand := range e.P.Preds {
			if cand.Name == n.Name {
				pd = cand
			}
		}
	}
	if pd == nil {
		panic(specErr("unknown function/predicate %q", n.Name))
	}
	if len(pd.Params) != len(n.Args) {
		panic(specErr("predicate %s expects %d arguments", n.Name, len(pd.Params)))
	}
	saved := c.bound
	nb := map[string]Val{}
	for k, v := range saved {
		nb[k] = v
	}
	for i, p := range pd.Params {
		pn := strings.Fields(p)[0]
		nb[pn] = c.eval(n.Args[i])
	}
	savedPkg := c.pkg
	c.bound = nb
	c.pkg = pd.Pkg
	v := c.eval(pd.Body)
	c.bound = saved
	c.pkg = savedPkg
	return v
}

func snodePath(n *SNode) string {
	switch n.Op {
	case "ident":
		return n.Name
	case "sel":
		return snodePath(n.Args[0]) + "." + n.Name
	}
	panic(specErr("Type.field path expected"))
}

func (c *SpecCtx) findIter() string {
	fr := c.fr
	if fr == nil || c.at == nil {
		panic(specErr("seen() outside a loop invariant"))
	}
	// innermost loop containing c.at whose header holds a Next instruction
	var best *loopInfo
	for _, li := range fr.loops {
		if !li.blocks[c.at] {
			continue
		}
		hasNext := false
		for _, in := range li.header.Instrs {
			if _, ok := in.(*ssa.Next); ok {
				hasNext = true
			}
		}
		if hasNext && (best == nil || len(li.blocks) < len(best.blocks)) {
			best = li
		}
	}
	if best == nil {
		panic(specErr("seen(): no enclosing map-range loop"))
	}
	for _, in := range best.header.Instrs {
		if nx, ok := in.(*ssa.Next); ok {
			it := fr.val(nx.Iter)
			return it.It.Visited
		}
	}
	panic("unreachable")
}

var _ = constant.MakeBool

// Src2 renders a type-like spec node back to text (for elems(T)/map(T) arguments).
func (n *SNode) Src2() string {
	switch n.Op {
	case "ident":
		return n.Name
	case "sel":
		return n.Args[0].Src2() + "." + n.Name
	case "un":
		if n.Name == "*" {
			return "*" + n.Args[0].Src2()
		}
	}
	panic(specErr("type expression expected"))
}

// evalSplit evaluates a boolean spec and splits it into conjuncts (through &&, ==>, forall and
// predicate bodies), so that every conjunct becomes its own small obligation.
type splitPart struct {
	Term string
	Desc string
}

func (c *SpecCtx) evalSplit(n *SNode) []string {
	var out []string
	for _, p := range c.evalSplitL(n) {
		out = append(out, p.Term)
	}
	return out
}

func (c *SpecCtx) evalSplitL(n *SNode) []splitPart {
	switch n.Op {
	case "bin":
		switch n.Name {
		case "&&":
			return append(c.evalSplitL(n.Args[0]), c.evalSplitL(n.Args[1])...)
		case "==>":
			lhs := c.evalBool(n.Args[0])
			var out []splitPart
			for _, g := range c.evalSplitL(n.Args[1]) {
				out = append(out, splitPart{implies(lhs, g.Term), n.Args[0].Text() + " ==> " + g.Desc})
			}
			return out
		}
	case "forall":
		saved := c.bound
		nb := map[string]Val{}
		for k, v := range saved {
			nb[k] = v
		}
		var decl []string
		for _, sv := range n.Vars {
			c.e.names["bv"]++
			vn := fmt.Sprintf("%s!%d", sv.Name, c.e.names["bv"])
			var t types.Type = tInt
			if sv.Type != "" && sv.Type != "int" {
				t = c.e.P.parseType(c.pkg, sv.Type)
			}
			cs := flatten(t)
			if len(cs) != 1 {
				panic(specErr("quantified variable %s must be scalar", sv.Name))
			}
			decl = append(decl, fmt.Sprintf("(%s %s)", q(vn), cs[0].Sort))
			nb[sv.Name] = scalar(t, q(vn))
		}
		c.bound = nb
		parts := c.evalSplitL(n.Args[0])
		c.bound = saved
		var vs []string
		for _, sv := range n.Vars {
			vs = append(vs, sv.Name)
		}
		var out []splitPart
		for _, p := range parts {
			if p.Term == "true" {
				continue
			}
			out = append(out, splitPart{fmt.Sprintf("(forall (%s) %s)", strings.Join(decl, " "), p.Term), "forall " + strings.Join(vs, ",") + " :: " + p.Desc})
		}
		if len(out) == 0 {
			out = []splitPart{{"true", "true"}}
		}
		return out
	case "call":
		pd := c.e.P.Preds[c.pkg+"."+n.Name]
		if strings.Contains(n.Name, ".") {
			pd = c.e.P.Preds[n.Name]
		}
		if pd == nil {
			for _, cand := range c.e.P.Preds {
				if cand.Name == n.Name {
					pd = cand
				}
			}
		}
		if pd != nil && len(pd.Params) == len(n.Args) {
			saved := c.bound
			nb := map[string]Val{}
			for k, v := range saved {
				nb[k] = v
			}
			for i, p := range pd.Params {
				if strings.TrimSpace(p) == "" {
					continue
				}
				nb[strings.Fields(p)[0]] = c.eval(n.Args[i])
			}
			savedPkg := c.pkg
			c.bound = nb
			c.pkg = pd.Pkg
			out := c.evalSplitL(pd.Body)
			c.bound = saved
			c.pkg = savedPkg
			for i := range out {
				out[i].Desc = n.Name + ": " + out[i].Desc
			}
			return out
		}
	}
	return []splitPart{{c.evalBool(n), n.Text()}}
}

// ---------------------------------------------------------------------------
// recursive spec functions and lemmas
// ---------------------------------------------------------------------------

type funInfo struct {
	name  string
	arrs  []string // heap arrays the body reads (names), in parameter order
	sorts []string
	sort  string
}

const arrsPlaceholder = "\x00ARRS\x00"

func (c *SpecCtx) lookupFun(name string) *FunDef {
	if strings.Contains(name, ".") {
		return c.e.P.Funs[name]
	}
	if fd := c.e.P.Funs[c.pkg+"."+name]; fd != nil {
		return fd
	}
	return nil
}

func resultSort(fd *FunDef) (string, types.Type) {
	if fd.Result == "bool" {
		return "Bool", tBool
	}
	return "Int", tInt
}

func (e *Enc) funDef(fd *FunDef) *funInfo {
	key := fd.Pkg + "." + fd.Name
	if fi, ok := e.funDefs[key]; ok {
		return fi
	}
	srt, _ := resultSort(fd)
	fi := &funInfo{name: q("fun." + key), sort: srt}
	e.funDefs[key] = fi // (recursion guard)
	fh := &Heap{m: map[string]string{}, alloc: q("alloc@0"), dirty: map[string]int{}, formal: &formalHeap{prefix: "f!", used: map[string]string{}}}
	names := map[string]Val{}
	var pdecl []string
	for _, p := range fd.Params {
		t := e.P.parseType(fd.Pkg, p.Type)
		cs := flatten(t)
		var syms []string
		for _, c := range cs {
			sym := q("p!" + p.Name + c.Suffix)
			syms = append(syms, sym)
			pdecl = append(pdecl, fmt.Sprintf("(%s %s)", sym, c.Sort))
		}
		pv, _ := fromComps(t, syms)
		names[p.Name] = pv
	}
	ctx := &SpecCtx{e: e, names: names, heap: fh, old: fh, pkg: fd.Pkg, noLemma: true, inFun: fd}
	body := ctx.eval(fd.Body)
	if body.K != kScalar {
		panic(specErr("fun %s: scalar body expected", fd.Name))
	}
	var adecl, aref []string
	for _, n := range fh.formal.order {
		fi.arrs = append(fi.arrs, n)
		fi.sorts = append(fi.sorts, fh.formal.used[n])
		adecl = append(adecl, fmt.Sprintf("(%s %s)", q("f!"+n), fh.formal.used[n]))
		aref = append(aref, q("f!"+n))
	}
	bt := strings.ReplaceAll(body.S, arrsPlaceholder, strings.Join(aref, " "))
	def := fmt.Sprintf("(define-fun-rec %s (%s) %s %s)", fi.name, strings.Join(append(adecl, pdecl...), " "), srt, bt)
	e.decls = append(e.decls, def)
	// the same symbol without its definition (for queries whose goal does not mention it: the recursive definition
	// only distracts the solvers there; the proved lemma instances stay available as plain assumptions)
	var sorts []string
	for _, n := range fh.formal.order {
		sorts = append(sorts, fh.formal.used[n])
	}
	for _, p := range fd.Params {
		for _, c := range flatten(e.P.parseType(fd.Pkg, p.Type)) {
			sorts = append(sorts, c.Sort)
		}
	}
	if e.opaqueFun == nil {
		e.opaqueFun = map[string][2]string{}
	}
	e.opaqueFun[def] = [2]string{fi.name, fmt.Sprintf("(declare-fun %s (%s) %s)", fi.name, strings.Join(sorts, " "), srt)}
	return fi
}

func (c *SpecCtx) evalFun(fd *FunDef, n *SNode) Val {
	e := c.e
	srt, rt := resultSort(fd)
	_ = srt
	if len(n.Args) != len(fd.Params) {
		panic(specErr("fun %s expects %d arguments", fd.Name, len(fd.Params)))
	}
	var args []Val
	var ats []string
	for _, a := range n.Args {
		v := c.eval(a)
		if v.K != kScalar && v.K != kSlice {
			panic(specErr("fun %s: scalar or slice arguments expected", fd.Name))
		}
		args = append(args, v)
		ats = append(ats, comps(v)...)
	}
	if c.inFun == fd && c.curHeap().formal != nil && !c.curHeap().formal.declare {
		// recursive call inside the definition: same formal arrays
		return scalar(rt, "("+q("fun."+fd.Pkg+"."+fd.Name)+" "+arrsPlaceholder+" "+strings.Join(ats, " ")+")")
	}
	fi := e.funDef(fd)
	h := c.curHeap()
	var arrs []string
	for i, an := range fi.arrs {
		arrs = append(arrs, e.harr(h, an, fi.sorts[i]))
	}
	term := "(" + fi.name + " " + strings.Join(append(arrs, ats...), " ") + ")"
	if len(arrs)+len(ats) == 0 {
		term = fi.name
	}
	if !c.noLemma {
		c.instantiateLemmas(fd, args, ats)
	}
	return scalar(rt, term)
}

func (c *SpecCtx) hasBound(ts []string) bool {
	for _, b := range c.bound {
		if b.K != kScalar || !strings.HasPrefix(b.S, "|") {
			continue
		}
		for _, t := range ts {
			if strings.Contains(t, b.S) {
				return true
			}
		}
	}
	return false
}

// instantiateLemmas assumes every proved lemma declared "for" this function at the given arguments, in the
// current (and pre-) heap. Lemmas are proved once per run (see verifyLemma); an instance is a consequence.
func (c *SpecCtx) instantiateLemmas(fd *FunDef, args []Val, ats []string) {
	e := c.e
	if c.hasBound(ats) {
		return
	}
	for li, ld := range e.P.Lemmas {
		if ld.For != fd.Name || ld.Pkg != fd.Pkg || len(ld.Params) != len(args) {
			continue
		}
		if e.lemmaLimit >= 0 && li >= e.lemmaLimit {
			continue
		}
		h, old := c.curHeap(), c.old
		if c.inOld {
			old = c.old
		}
		var hk []string
		fi := e.funDef(fd)
		for i, an := range fi.arrs {
			hk = append(hk, e.harr(h, an, fi.sorts[i]), e.harr(old, an, fi.sorts[i]))
		}
		key := ld.Name + "|" + strings.Join(ats, ",") + "|" + strings.Join(hk, ",")
		if at, ok := e.lemmaSeen[key]; ok && at <= len(e.lines) {
			continue
		}
		names := map[string]Val{}
		for i, p := range ld.Params {
			names[p.Name] = args[i]
		}
		lc := &SpecCtx{e: e, names: names, heap: h, old: old, pkg: ld.Pkg, noLemma: true}
		fact := lc.evalBool(ld.Body)
		n0 := len(e.lines)
		e.assume("true", fact)
		if len(e.lines) == n0+1 {
			// remember which recursive function this instance is about: queries whose goal does not mention the
			// function leave the instance out on their first attempt
			if e.lemmaLine == nil {
				e.lemmaLine = map[int]string{}
			}
			e.lemmaLine[n0] = e.funDef(fd).name
		}
		e.lemmaSeen[key] = len(e.lines)
		e.usedLemmas[ld.Pkg+"."+ld.Name] = true
	}
}
