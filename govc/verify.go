package main

import (
	"fmt"
	"go/ast"
	"go/types"
	"os"
	"path/filepath"
	"regexp"
	"sort"
	"strings"
	"sync"
	"sync/atomic"
	"time"

	"golang.org/x/tools/go/ssa"
)

type OblResult struct {
	Obl       *Obl
	Status    string // discharged | refuted | undischarged | cover-ok | cover-vacuous
	Solve     SolveResult
	File      string
	Func      string
	Model     map[string]string
	Residual  bool // proved only under ¬except of a known finding
	KnownLine string
	KnownNote string
	Replay    *ReplayOutcome
	Relaxed   bool // model comes from the quantifier-free relaxation of the query
}

type FuncResult struct {
	Key     string
	Err     error // outside the subset / spec error
	Results []*OblResult
	Notes   []string
	Lemmas  []string
	Used    []string
	Inlined []string
	Enc     *Enc
	Millis  int64
}

type VerifyOpts struct {
	failed   *atomic.Bool
	NoRetry  bool // trial run (rebinding search): short timeouts, no second attempt, no relaxed models
	WorkDir  string
	TimeoutS int
	Agree    int
	Findings []*Finding
	OnlyObl  *regexp.Regexp
	Prop     string
	NoReplay bool
}

// verifyFunc verifies one function against its contract. When the contract names a local variable that the source
// no longer has (a harmless rename breaks the binding of a loop invariant), the other locals of the function are
// tried in its place: invariants and site assertions are hints that are themselves proved, so ANY binding under
// which every obligation discharges is a valid proof. The rebinding is reported in the notes.
func (P *Program) verifyFunc(key string, opts *VerifyOpts) *FuncResult {
	rebindDeadline.Store(key, time.Now().Add(150*time.Second))
	return P.verifyRebind(key, opts, nil, 0, new(int))
}

var rebindDeadline sync.Map // function key -> time after which no further rebinding trial is started

var reIdent = regexp.MustCompile(`[A-Za-z_][A-Za-z0-9_]*`)
var reUnknownName = regexp.MustCompile(`unknown name "([A-Za-z_][A-Za-z0-9_]*)"`)

func (P *Program) verifyRebind(key string, opts *VerifyOpts, alias map[string]string, depth int, trials *int) *FuncResult {
	r := P.verifyFuncAlias(key, opts, alias)
	if r.Err == nil || depth >= 2 {
		return r
	}
	m := reUnknownName.FindStringSubmatch(r.Err.Error())
	fn := P.Funcs[key]
	if m == nil || fn == nil {
		return r
	}
	missing := m[1]
	taken := map[string]bool{}
	for _, v := range alias {
		taken[v] = true
	}
	// candidates: the locals the contract does not mention anywhere (a renamed local is new to the contract)
	mentioned := map[string]bool{}
	if sp := P.Specs[key]; sp != nil {
		var cls []Clause
		cls = append(append(cls, sp.Requires...), sp.Ensures...)
		for _, l := range sp.Loops {
			cls = append(cls, l.Invariants...)
		}
		for _, as := range sp.Asserts {
			cls = append(cls, as...)
		}
		for _, c := range cls {
			for _, id := range reIdent.FindAllString(c.Src, -1) {
				mentioned[id] = true
			}
		}
	}
	for _, cand := range localNames(fn) {
		if cand == missing || taken[cand] || mentioned[cand] || *trials >= 40 {
			continue
		}
		if dl, ok := rebindDeadline.Load(key); ok && time.Now().After(dl.(time.Time)) {
			break
		}
		*trials++
		{
			// trial runs: short timeouts, no retries, stop at the first failed obligation; a binding under which
			// everything discharges even so is accepted
			o2 := *opts
			o2.NoRetry = true
			o2.failed = new(atomic.Bool)
			if o2.TimeoutS > 5 {
				o2.TimeoutS = 5
			}
			opts = &o2
		}
		a2 := map[string]string{missing: cand}
		for k, v := range alias {
			a2[k] = v
		}
		r2 := P.verifyRebind(key, opts, a2, depth+1, trials)
		if os.Getenv("GOVC_DEBUG") != "" {
			nbad := 0
			for _, or := range r2.Results {
				if or != nil && (or.Status == "refuted" || or.Status == "undischarged" || or.Status == "cover-vacuous") {
					nbad++
					if nbad <= 3 {
						fmt.Fprintf(os.Stderr, "    failing: %s %s\n", or.Obl.Name, or.Status)
					}
				}
			}
			fmt.Fprintf(os.Stderr, "rebind trial %s: %v -> err=%v failing=%d (%d ms)\n", key, a2, r2.Err, nbad, r2.Millis)
		}
		if r2.Err != nil {
			continue
		}
		ok := true
		for _, or := range r2.Results {
			if or == nil {
				continue
			}
			switch or.Status {
			case "refuted", "undischarged", "cover-vacuous":
				ok = false
			}
		}
		if ok {
			r2.Notes = append(r2.Notes, fmt.Sprintf("contract of %s names a local %q that the source no longer has; every obligation discharges with %q in its place (rebinding found by search, the invariants are proved under it)", key, missing, cand))
			return r2
		}
	}
	return r
}

// localNames: the source-level names of the locals of a function (debug references, named phis and cells)
func localNames(fn *ssa.Function) []string {
	set := map[string]bool{}
	declLine := map[string]int{}
	for _, b := range fn.Blocks {
		for _, in := range b.Instrs {
			switch x := in.(type) {
			case *ssa.DebugRef:
				if id, ok := x.Expr.(*ast.Ident); ok && id.Name != "_" {
					// only variables declared inside this function (not package functions, fields, globals)
					if v, isVar := x.Object().(*types.Var); isVar && !v.IsField() && fn.Syntax() != nil && v.Pos() >= fn.Syntax().Pos() && v.Pos() <= fn.Syntax().End() {
						set[id.Name] = true
						declLine[id.Name] = fn.Prog.Fset.Position(v.Pos()).Line
					}
				}
			case *ssa.Phi:
				if x.Comment != "" && x.Comment != "rangeindex" {
					set[x.Comment] = true
				}
			case *ssa.Alloc:
				if x.Comment != "" && !strings.Contains(x.Comment, " ") && !strings.Contains(x.Comment, ".") {
					set[x.Comment] = true
				}
			}
		}
	}
	for _, p := range fn.Params {
		delete(set, p.Name())
	}
	var out []string
	for n := range set {
		out = append(out, n)
	}
	sort.Strings(out)
	// variables declared next to a loop first (loop invariants are where locals are named)
	var loopLines []int
	for _, b := range fn.Blocks {
		if strings.Contains(b.Comment, "for.") || strings.Contains(b.Comment, "range") {
			for _, in := range b.Instrs {
				if in.Pos().IsValid() {
					loopLines = append(loopLines, fn.Prog.Fset.Position(in.Pos()).Line)
					break
				}
			}
		}
	}
	score := func(n string) int {
		best := 1 << 20
		for _, l := range loopLines {
			d := declLine[n] - l
			if d < 0 {
				d = -d
			}
			if d < best {
				best = d
			}
		}
		return best
	}
	sort.SliceStable(out, func(i, j int) bool { return score(out[i]) < score(out[j]) })
	return out
}

func (P *Program) verifyFuncAlias(key string, opts *VerifyOpts, alias map[string]string) (res *FuncResult) {
	res = &FuncResult{Key: key}
	t0 := time.Now()
	defer func() { res.Millis = time.Since(t0).Milliseconds() }()
	fn := P.Funcs[key]
	spec := P.Specs[key]
	if fn == nil {
		res.Err = fmt.Errorf("contract names function %s which does not exist in the source", key)
		return
	}
	if spec == nil {
		spec = &FuncSpec{Key: key, Pkg: fn.Pkg.Pkg.Name(), Loops: map[int]*LoopSpec{}}
	}
	ncase := len(spec.Cases)
	var cis []int
	for ci := -1; ci < ncase; ci++ {
		if ncase == 0 && ci >= 0 {
			break
		}
		cis = append(cis, ci)
	}
	encsArr := make([]*Enc, len(cis))
	errs := make([]error, len(cis))
	var ewg sync.WaitGroup
	esem := make(chan struct{}, 8)
	for k, ci := range cis {
		ewg.Add(1)
		go func(k, ci int) {
			defer ewg.Done()
			esem <- struct{}{}
			defer func() { <-esem }()
			e := newEnc(P)
			e.alias = alias
			encsArr[k] = e
			defer func() {
				if r := recover(); r != nil {
					switch x := r.(type) {
					case Unsupported:
						errs[k] = fmt.Errorf("outside the verified Go subset: %s", x.Msg)
					case SpecError:
						errs[k] = fmt.Errorf("contract error in %s: %s", key, x.Msg)
					default:
						panic(r)
					}
				}
			}()
			e.encodeTop(fn, spec, ci)
		}(k, ci)
	}
	ewg.Wait()
	for _, er := range errs {
		if er != nil {
			res.Err = er
			return
		}
	}
	encs := encsArr
	res.Enc = encs[len(encs)-1]
	notes, used, inl := map[string]bool{}, map[string]bool{}, map[string]bool{}
	for _, e := range encs {
		for n := range e.notes {
			notes[n] = true
		}
		for n := range e.used {
			used[n] = true
		}
		for n := range e.inlined {
			inl[n] = true
		}
		for n := range e.usedLemmas {
			res.Lemmas = append(res.Lemmas, n)
		}
	}
	for n := range notes {
		res.Notes = append(res.Notes, n)
	}
	sort.Strings(res.Notes)
	for n := range used {
		res.Used = append(res.Used, n)
	}
	sort.Strings(res.Used)
	for n := range inl {
		res.Inlined = append(res.Inlined, n)
	}
	sort.Strings(res.Inlined)
	// known findings: evaluate the except predicates in the entry state (sequentially: evaluation may declare symbols)
	for _, e := range encs {
		for _, o := range e.obls {
			for _, f := range opts.Findings {
				if f.Obligation != o.Name {
					continue
				}
				func() {
					defer func() {
						if r := recover(); r != nil {
							if se, ok := r.(SpecError); ok {
								res.Err = fmt.Errorf("known finding %s: except predicate: %s", f.ID, se.Msg)
								return
							}
							panic(r)
						}
					}()
					n, err := parseSpec(f.Except)
					if err != nil {
						res.Err = fmt.Errorf("known finding %s: %v", f.ID, err)
						return
					}
					ctx := &SpecCtx{e: e, names: e.topNames, heap: e.h0, old: e.h0, pkg: spec.Pkg}
					if f.At == "site" && o.Site != nil {
						ctx = o.Site
					}
					o.Except = ctx.evalBool(n)
					o.Finding = f
				}()
			}
		}
		if e.top != nil {
			e.watchParams()
		}
	}
	if res.Err != nil {
		return
	}
	if os.Getenv("GOVC_DEBUG") != "" {
		fmt.Fprintf(os.Stderr, "encoded %s in %d ms\n", key, time.Since(t0).Milliseconds())
	}
	// discharge
	var wg sync.WaitGroup
	totalObl := 0
	for _, e := range encs {
		totalObl += len(e.obls)
	}
	res.Results = make([]*OblResult, totalObl)
	base := 0
	for _, e := range encs {
		base0 := base
		base += len(e.obls)
		base := base0
		// groups: try the conjunction of all parts of one clause first
		groups := map[string][]int{}
		var gorder []string
		for i, o := range e.obls {
			if o.Group == "" && (o.Kind == "frame" || strings.HasPrefix(o.Kind, "safe:")) {
				o.Group = e.topKey() + "#" + strings.SplitN(o.Kind, ":", 2)[0]
			}
			if o.Group == "" || o.Finding != nil || o.Kind == "cover" {
				continue
			}
			if opts.OnlyObl != nil && !opts.OnlyObl.MatchString(o.Name) {
				continue
			}
			if opts.Prop != "" && len(o.Tags) > 0 && !containsStr(o.Tags, opts.Prop) {
				continue
			}
			if _, ok := groups[o.Group]; !ok {
				gorder = append(gorder, o.Group)
			}
			groups[o.Group] = append(groups[o.Group], i)
		}
		inGroup := map[int]bool{}
		for _, gname := range gorder {
			idxs := groups[gname]
			hasFinding := false
			for _, i := range idxs {
				if e.obls[i].Finding != nil {
					hasFinding = true
				}
			}
			if len(idxs) < 2 || hasFinding {
				continue
			}
			for _, i := range idxs {
				inGroup[i] = true
			}
			wg.Add(1)
			go func(e *Enc, gname string, idxs []int, base int) {
				defer wg.Done()
				var goals []string
				first := e.obls[idxs[0]]
				nl := 0
				for _, i := range idxs {
					goals = append(goals, implies(e.obls[i].Guard, e.obls[i].Goal))
					if e.obls[i].NLines > nl {
						nl = e.obls[i].NLines
					}
				}
				gobl := &Obl{Name: gname + "/all", Kind: first.Kind, Goal: and(goals...), Guard: "true", NLines: nl}
				file := filepath.Join(opts.WorkDir, safeName(gobl.Name)+".smt2")
				var sr SolveResult
				if gobl.Goal == "true" || gobl.Guard == "false" {
					sr = SolveResult{Status: "unsat", Backend: "govc-trivial"}
				} else {
					writeFile(file, e.buildQuery(gobl, nil, false))
					sr = runQuery(file, 4, opts.Agree, nil)
				}
				if os.Getenv("GOVC_DEBUG") != "" {
					fmt.Fprintf(os.Stderr, "group %s n=%d -> %s %dms\n", gname, len(idxs), sr.Status, sr.Millis)
				}
				if sr.Status == "unsat" {
					for _, i := range idxs {
						res.Results[base+i] = &OblResult{Obl: e.obls[i], Status: "discharged", Solve: SolveResult{Status: "unsat", Backend: sr.Backend, Millis: sr.Millis / int64(len(idxs))}, File: file, Func: key}
					}
					return
				}
				var w2 sync.WaitGroup
				for _, i := range idxs {
					w2.Add(1)
					go func(i int) {
						defer w2.Done()
						res.Results[base+i] = e.discharge(e.obls[i], key, opts)
					}(i)
				}
				w2.Wait()
			}(e, gname, idxs, base)
		}
		for i, o := range e.obls {
			if inGroup[i] {
				continue
			}
			if opts.OnlyObl != nil && !opts.OnlyObl.MatchString(o.Name) {
				res.Results[base+i] = &OblResult{Obl: o, Status: "skipped", Func: key}
				continue
			}
			if opts.Prop != "" && len(o.Tags) > 0 && !containsStr(o.Tags, opts.Prop) {
				// a clause tagged for other properties only: it is discharged by those properties' checks
				res.Results[base+i] = &OblResult{Obl: o, Status: "skipped", Func: key}
				continue
			}
			wg.Add(1)
			go func(e *Enc, i int, o *Obl) {
				defer wg.Done()
				res.Results[i] = e.discharge(o, key, opts)
			}(e, base+i, o)
		}
	}
	wg.Wait()
	return
}

// caseSubst: for a case clause of the form "<param> == <constant>", the parameter index and the constant term.
func (e *Enc) caseSubst(fn *ssa.Function, spec *FuncSpec, c Clause) (int, string, bool) {
	n := c.Expr
	if n.Op != "bin" || n.Name != "==" || n.Args[0].Op != "ident" {
		return 0, "", false
	}
	for i, p := range fn.Params {
		name := p.Name()
		if i < len(spec.Params) && spec.Params[i] != "" && spec.Params[i] != "_" {
			name = spec.Params[i]
		}
		if name == n.Args[0].Name {
			ctx := &SpecCtx{e: e, names: map[string]Val{}, heap: &Heap{m: map[string]string{}, alloc: q("alloc@0"), dirty: map[string]int{}}, pkg: spec.Pkg}
			ctx.old = ctx.heap
			var v Val
			ok := func() (ok bool) {
				defer func() {
					if r := recover(); r != nil {
						ok = false
					}
				}()
				v = ctx.eval(n.Args[1])
				return true
			}()
			if ok && v.K == kScalar && isNumLit(v.S) {
				return i, v.S, true
			}
		}
	}
	return 0, "", false
}

func (e *Enc) encodeTop(fn *ssa.Function, spec *FuncSpec, caseIdx int) {
	h0 := &Heap{m: map[string]string{}, alloc: q("alloc@0"), dirty: map[string]int{}}
	var params []Val
	for i, p := range fn.Params {
		hint := p.Name()
		if i < len(spec.Params) && spec.Params[i] != "" && spec.Params[i] != "_" {
			hint = spec.Params[i]
		}
		v := e.freshVal("arg."+hint, p.Type())
		e.assume("true", e.typeFacts(v, h0))
		if caseIdx >= 0 {
			if pi, ct, ok := e.caseSubst(fn, spec, spec.Cases[caseIdx]); ok && pi == i {
				v = scalar(p.Type(), ct)
			}
		}
		params = append(params, v)
	}
	e.h0 = h0
	e.hints = spec.Hints
	e.opaqueMul = spec.OpaqueMul
	e.setupLocks(spec)
	fr := e.newFrame(fn, nil, params, h0)
	fr.isTop = true
	fr.spec = spec
	e.top = fr
	names := map[string]Val{}
	for i, p := range fn.Params {
		names[p.Name()] = params[i]
	}
	for i, n := range spec.Params {
		if i < len(params) && n != "" && n != "_" {
			names[n] = params[i]
		}
	}
	for _, c := range spec.Requires {
		ctx := &SpecCtx{e: e, names: names, heap: h0, old: h0, pkg: spec.Pkg}
		e.assume("true", ctx.evalBool(c.Expr))
	}
	e.topNames = names
	key := funcKey(fn)
	if caseIdx >= 0 {
		ctx := &SpecCtx{e: e, names: names, heap: h0, old: h0, pkg: spec.Pkg}
		e.assume("true", ctx.evalBool(spec.Cases[caseIdx].Expr))
		key = fmt.Sprintf("%s#case%d", key, caseIdx+1)
	} else if len(spec.Cases) > 0 {
		// exhaustiveness of the case split
		var cs []string
		for _, c := range spec.Cases {
			ctx := &SpecCtx{e: e, names: names, heap: h0, old: h0, pkg: spec.Pkg}
			cs = append(cs, ctx.evalBool(c.Expr))
		}
		e.oblige(key+"#cases-exhaustive", "cases", "true", or(cs...), "", "case split covers the precondition", nil)
		return
	}
	e.caseKey = key
	e.oblige(key+"#cover:requires", "cover", "true", "false", "", "preconditions are satisfiable (anti-vacuity)", nil)
	fr.run("true")
	if len(fr.rets) == 0 {
		e.note("function never returns normally")
		return
	}
	var ins []edgeInfo
	for _, r := range fr.rets {
		ins = append(ins, edgeInfo{reach: r.reach, heap: r.heap})
	}
	fr.curBlock = fn.Blocks[0]
	fs := fr.merge(fn.Blocks[0], ins)
	e.oblige(key+"#cover:return", "cover", fs.reach, "false", "", "some return is reachable under the preconditions (anti-vacuity)", nil)
	rnames := map[string]Val{}
	for k, v := range names {
		rnames[k] = v
	}
	nres := fn.Signature.Results().Len()
	for i := 0; i < nres; i++ {
		t := fn.Signature.Results().At(i).Type()
		cs := flatten(t)
		ts := make([]string, len(cs))
		for c := range cs {
			tm := comps(fr.rets[len(fr.rets)-1].vals[i])[c]
			for j := len(fr.rets) - 2; j >= 0; j-- {
				tm = ite(fr.rets[j].reach, comps(fr.rets[j].vals[i])[c], tm)
			}
			ts[c] = e.define(fmt.Sprintf("result%d%s", i, cs[c].Suffix), cs[c].Sort, tm)
		}
		v, _ := fromComps(t, ts)
		n := "result"
		if i > 0 {
			n = fmt.Sprintf("result%d", i)
		}
		rnames[n] = v
		if i < len(spec.Results) && spec.Results[i] != "" && spec.Results[i] != "_" {
			rnames[spec.Results[i]] = v
		}
	}
	for i, c := range spec.Ensures {
		ctx := &SpecCtx{e: e, names: rnames, heap: fs.heap, old: h0, pkg: spec.Pkg}
		parts := ctx.evalSplitL(c.Expr)
		for j, g := range parts {
			name := fmt.Sprintf("%s#post:%d", strings.Replace(key, "#case", "@case", 1), i+1)
			src := "ensures " + c.Src
			if len(parts) > 1 {
				name = fmt.Sprintf("%s/%d", name, j+1)
				src = "ensures (part) " + g.Desc
			}
			o := e.oblige(name, "post", fs.reach, g.Term, fmt.Sprintf("%s:%d", filepath.Base(spec.File), c.Line), src, c.Tags)
			if len(fr.rets) > 1 && len(fr.rets) <= 8 {
				for _, rt := range fr.rets {
					o.RetCases = append(o.RetCases, rt.reach)
				}
			}
			if len(parts) > 1 {
				o.Group = fmt.Sprintf("%s#post:%d", strings.Replace(key, "#case", "@case", 1), i+1)
			}
		}
	}
	if spec.HasMod {
		e.frameObligations(fr, spec, names, h0, fs)
	}
}

// frameObligations: everything outside the modifies clause is unchanged for
// every object that existed at entry.
func (e *Enc) frameObligations(fr *Frame, spec *FuncSpec, names map[string]Val, h0 *Heap, fs BState) {
	_ = funcKey(fr.fn)
	whole, cells := e.resolveModifies(spec, names, h0)
	byArr := map[string][]string{}
	for _, c := range cells {
		byArr[c.arr] = append(byArr[c.arr], c.ref)
	}
	for _, n := range sortedKeys(fs.heap.m) {
		if strings.HasPrefix(n, "IT_") {
			continue
		}
		if _, w := whole[n]; w {
			continue
		}
		srt := e.hsort(n)
		fin := e.harr(fs.heap, n, srt)
		ini := e.harr(h0, n, srt)
		if fin == ini {
			continue
		}
		e.names["fr"]++
		r := e.fresh(fmt.Sprintf("frame.r%d", e.names["fr"]), "Int")
		var excl []string
		for _, ref := range byArr[n] {
			excl = append(excl, not(eq(r, ref)))
		}
		goal := implies(and(append([]string{sx("<=", r, q("alloc@0"))}, excl...)...), eq(sel(fin, r), sel(ini, r)))
		e.oblige(fmt.Sprintf("%s#frame:%s", e.topKey(), n), "frame", fs.reach, goal, "", "frame: "+n+" unchanged outside the modifies clause", nil)
	}
	if !spec.Allocs {
		// results must not be fresh references unless allocs is declared — checked on result refs only
	}
}

var reModelLine = regexp.MustCompile(`^\s*\(\((.*)\)\)\s*$`)

func (e *Enc) buildQuery(o *Obl, extra []string, wantModel bool) string {
	return e.buildQueryX(o, extra, wantModel, false)
}

// buildQueryX with relaxed=true drops every quantified hypothesis: a model of the relaxation is only a
// candidate counterexample (it may violate the dropped invariants) and is trusted only if it replays.
func (e *Enc) buildQueryX(o *Obl, extra []string, wantModel bool, relaxed bool, opaque ...bool) string {
	opaqueNow := len(opaque) > 0 && opaque[0]
	var sb strings.Builder
	sb.WriteString("(set-option :produce-models true)\n(set-logic ALL)\n")
	for _, d := range e.decls {
		if of, ok := e.opaqueFun[d]; ok && opaqueNow {
			mentioned := strings.Contains(o.Goal, of[0]) || strings.Contains(o.Guard, of[0])
			for _, x := range extra {
				if strings.Contains(x, of[0]) {
					mentioned = true
				}
			}
			if !mentioned {
				sb.WriteString(of[1])
				sb.WriteByte('\n')
				continue
			}
		}
		sb.WriteString(d)
		sb.WriteByte('\n')
	}
	// string literal facts
	for i, s := range e.P.strSnapshot() {
		fmt.Fprintf(&sb, "(assert (= (gstr.len %d) %d))\n", i, len(s))
	}
	sb.WriteString("(assert (forall ((s Int)) (! (and (>= (gstr.len s) 0) (=> (= (gstr.len s) 0) (= s 0))) :pattern ((gstr.len s)))))\n")
	for li, l := range e.lines[:o.NLines] {
		if relaxed && strings.HasPrefix(l, "(assert") && (strings.Contains(l, "(forall ") || strings.Contains(l, "(exists ")) {
			continue
		}
		if opaqueNow {
			if fnm, isLemma := e.lemmaLine[li]; isLemma && !strings.Contains(o.Goal, fnm) && !strings.Contains(o.Guard, fnm) {
				continue
			}
		}
		sb.WriteString(l)
		sb.WriteByte('\n')
	}
	for _, x := range extra {
		sb.WriteString("(assert " + x + ")\n")
	}
	sb.WriteString("(assert " + o.Guard + ")\n")
	sb.WriteString("(assert " + not(o.Goal) + ")\n")
	sb.WriteString("(check-sat)\n")
	if wantModel && len(e.watch) > 0 {
		sb.WriteString("(get-value (")
		for _, w := range e.watch {
			sb.WriteString(w.Term + " ")
		}
		sb.WriteString("))\n")
	}
	return sb.String()
}

func safeName(s string) string {
	return regexp.MustCompile(`[^A-Za-z0-9_.#@:-]`).ReplaceAllString(s, "_")
}

func (e *Enc) discharge(o *Obl, fkey string, opts *VerifyOpts) (r *OblResult) {
	if opts.NoRetry && opts.failed != nil {
		// trial run of the rebinding search: one failed obligation rejects the candidate, the rest is not run
		if opts.failed.Load() {
			return &OblResult{Obl: o, Func: fkey, Status: "undischarged", Solve: SolveResult{Status: "unknown", Backend: "skipped"}}
		}
		defer func() {
			if r != nil && (r.Status == "refuted" || r.Status == "undischarged" || r.Status == "cover-vacuous") {
				opts.failed.Store(true)
			}
		}()
	}
	return e.discharge0(o, fkey, opts)
}

func (e *Enc) discharge0(o *Obl, fkey string, opts *VerifyOpts) *OblResult {
	r := &OblResult{Obl: o, Func: fkey}
	file := filepath.Join(opts.WorkDir, safeName(o.Name)+".smt2")
	r.File = file
	if o.Kind == "cover" {
		writeFile(file, e.buildQuery(o, nil, false))
		sr := runQuery(file, 2, 1, []string{"z3-4.8.12"})
		r.Solve = sr
		switch sr.Status {
		case "sat":
			r.Status = "cover-ok"
		case "unsat":
			r.Status = "cover-vacuous"
		default:
			// quantified hypotheses: solvers rarely build a model; vacuity would show up as unsat
			r.Status = "cover-notrefuted"
		}
		return r
	}
	if o.Goal == "true" || o.Guard == "false" {
		r.Status = "discharged"
		r.Solve = SolveResult{Status: "unsat", Backend: "govc-trivial"}
		if o.Kind == "lock" {
			r.Solve.Backend = "govc-lock"
		}
		return r
	}
	skipRetry := false
	run := func(tag string, extra []string, relaxed bool, agree int) SolveResult {
		f := file
		if tag != "" {
			f = strings.TrimSuffix(file, ".smt2") + "." + tag + ".smt2"
		}
		// the query goes out without the (large) get-value request; only a sat answer is asked again for its model
		// first attempt: recursive spec functions the goal does not mention are left uninterpreted
		writeFile(f, e.buildQueryX(o, extra, false, relaxed, true))
		// (a short first attempt: what the default configurations do not decide within seconds goes to the diversified portfolio)
		first := opts.TimeoutS
		if first > 6 && !opts.NoRetry && !relaxed {
			first = 6
		}
		sr := runQuery(f, first, agree, nil)
		if sr.Status == "sat" && len(e.opaqueFun) > 0 {
			sr.Status = "unknown" // a model of the weakened query proves nothing: ask again with the definitions
		}
		if sr.Status == "unknown" && !relaxed && !opts.NoRetry && !skipRetry {
			writeFile(f, e.buildQueryX(o, extra, false, relaxed))
			rt := opts.TimeoutS * 3
			if rt < 60 {
				rt = 60 // a loaded machine must not turn a slow proof into an alarm
			}
			sr2 := runQueryRetry(f, rt, agree)
			sr2.Millis += sr.Millis
			sr = sr2
		}
		if sr.Status == "sat" {
			fm := strings.TrimSuffix(f, ".smt2") + ".model.smt2"
			writeFile(fm, e.buildQueryX(o, extra, true, relaxed))
			base := strings.SplitN(sr.Backend, "/", 2)[0]
			if srm := runQuery(fm, opts.TimeoutS*3, 1, []string{base}); srm.Status == "sat" {
				sr.Output = srm.Output
			}
		}
		return sr
	}
	if o.Finding != nil {
		// known finding: the obligation must hold outside the recorded failing region ...
		sr := run("residual", []string{not(o.Except)}, false, opts.Agree)
		r.Solve = sr
		if sr.Status == "unsat" {
			// ... and the finding is reported only while it still reproduces (canary)
			can := run("canary", []string{o.Except}, false, 1)
			if can.Status == "unknown" {
				can = run("canary-relaxed", []string{o.Except}, true, 1)
				r.Relaxed = true
			}
			if can.Status == "unsat" && !r.Relaxed {
				r.Status = "discharged"
				return r
			}
			r.Status = "known"
			r.Residual = true
			r.Model = parseGetValue(can.Output, e.watch)
			if o.Finding.appliesTo(opts.Prop) {
				r.KnownLine = fmt.Sprintf("KNOWN-FINDING: property=%s %s [%s; obligation %s fails exactly when: %s]", opts.Prop, o.Finding.What, o.Finding.ID, o.Name, o.Finding.Except)
			} else {
				r.KnownNote = fmt.Sprintf("known finding %s (recorded for %v) lies on this property's closure; residual discharged", o.Finding.ID, o.Finding.Properties)
			}
			return r
		}
		// a violation outside the recorded region
		if sr.Status == "sat" {
			r.Status = "refuted"
			r.Model = parseGetValue(sr.Output, e.watch)
		} else {
			r.Status = "undischarged"
			rel := SolveResult{Status: "unknown"}
			if !opts.NoRetry {
				rel = run("relaxed", []string{not(o.Except)}, true, 1)
			}
			if rel.Status == "sat" {
				r.Model = parseGetValue(rel.Output, e.watch)
				r.Relaxed = true
			}
		}
		return r
	}
	var sr SolveResult
	if len(o.RetCases) > 1 && !opts.NoRetry {
		// a postcondition over the merged exit state of several return sites: one short attempt on the whole, then once
		// per return site (the sites' path conditions are mutually exclusive and together make up the guard, so the
		// conjunction of the cases is the obligation); only if that does not settle it, the full portfolio on the whole
		skipRetry = true
		sr = run("", o.Extra, false, opts.Agree)
		skipRetry = false
		if sr.Status == "unknown" {
			all := true
			var ms int64
			backs := map[string]bool{}
			for k, c := range o.RetCases {
				cs := run(fmt.Sprintf("ret%d", k+1), append(append([]string{}, o.Extra...), c), false, opts.Agree)
				ms += cs.Millis
				if cs.Status != "unsat" {
					all = false
					break
				}
				backs[cs.Backend] = true
			}
			if all {
				var bl []string
				for b := range backs {
					bl = append(bl, b)
				}
				sort.Strings(bl)
				sr = SolveResult{Status: "unsat", Backend: "by-return-site(" + strings.Join(bl, ",") + ")", Millis: sr.Millis + ms}
			} else {
				sr = run("", o.Extra, false, opts.Agree)
			}
		}
	} else {
		sr = run("", o.Extra, false, opts.Agree)
	}
	r.Solve = sr
	switch sr.Status {
	case "unsat":
		r.Status = "discharged"
	case "sat":
		r.Status = "refuted"
		r.Model = parseGetValue(sr.Output, e.watch)
	default:
		r.Status = "undischarged"
		rel := SolveResult{Status: "unknown"}
		if !opts.NoRetry {
			rel = run("relaxed", o.Extra, true, 1)
		}
		if rel.Status == "sat" {
			r.Model = parseGetValue(rel.Output, e.watch)
			r.Relaxed = true
		}
	}
	return r
}

// parseGetValue reads "((term value) (term value) ...)" following "sat".
func parseGetValue(out string, watch []WatchTerm) map[string]string {
	m := map[string]string{}
	i := strings.Index(out, "sat")
	if i < 0 {
		return m
	}
	rest := out[i+3:]
	sexps := parseSexps(rest)
	if len(sexps) == 0 {
		return m
	}
	pairs := sexps[0].list
	for k, p := range pairs {
		if k < len(watch) && len(p.list) == 2 {
			m[watch[k].Label] = p.list[1].String()
		}
	}
	return m
}

type sexp struct {
	atom   string
	list   []*sexp
	isList bool
}

func (s *sexp) String() string {
	if !s.isList {
		return s.atom
	}
	var ps []string
	for _, x := range s.list {
		ps = append(ps, x.String())
	}
	return "(" + strings.Join(ps, " ") + ")"
}

func parseSexps(src string) []*sexp {
	var out []*sexp
	var stack []*sexp
	i := 0
	for i < len(src) {
		c := src[i]
		switch {
		case c == '(':
			n := &sexp{isList: true}
			stack = append(stack, n)
			i++
		case c == ')':
			if len(stack) == 0 {
				return out
			}
			n := stack[len(stack)-1]
			stack = stack[:len(stack)-1]
			if len(stack) == 0 {
				out = append(out, n)
			} else {
				stack[len(stack)-1].list = append(stack[len(stack)-1].list, n)
			}
			i++
		case c == ' ' || c == '\n' || c == '\t' || c == '\r':
			i++
		case c == '|':
			j := i + 1
			for j < len(src) && src[j] != '|' {
				j++
			}
			a := &sexp{atom: src[i : j+1]}
			if len(stack) > 0 {
				stack[len(stack)-1].list = append(stack[len(stack)-1].list, a)
			}
			i = j + 1
		default:
			j := i
			for j < len(src) && !strings.ContainsRune("() \n\t\r", rune(src[j])) {
				j++
			}
			a := &sexp{atom: src[i:j]}
			if len(stack) > 0 {
				stack[len(stack)-1].list = append(stack[len(stack)-1].list, a)
			} else {
				// stray atom (e.g. error text): ignore
			}
			i = j
		}
	}
	return out
}

var _ = types.Typ

func containsStr(xs []string, x string) bool {
	for _, y := range xs {
		if y == x {
			return true
		}
	}
	return false
}

// verifyLemma proves a lemma once per run: directly, or by induction on a natural-number parameter
// (base case k <= 0, step case k > 0 with the statement at k-1 as hypothesis). The induction principle
// itself is the trusted meta-step.
func (P *Program) verifyLemma(idx int, opts *VerifyOpts) *FuncResult {
	ld := P.Lemmas[idx]
	key := "lemma:" + ld.Pkg + "." + ld.Name
	res := &FuncResult{Key: key}
	t0 := time.Now()
	defer func() { res.Millis = time.Since(t0).Milliseconds() }()
	e := newEnc(P)
	e.lemmaLimit = idx
	res.Enc = e
	func() {
		defer func() {
			if r := recover(); r != nil {
				switch x := r.(type) {
				case Unsupported:
					res.Err = fmt.Errorf("outside the verified Go subset: %s", x.Msg)
				case SpecError:
					res.Err = fmt.Errorf("contract error in %s: %s", key, x.Msg)
				default:
					panic(r)
				}
			}
		}()
		h := &Heap{m: map[string]string{}, alloc: q("alloc@0"), dirty: map[string]int{}}
		old := &Heap{m: map[string]string{}, alloc: q("alloc@0"), dirty: map[string]int{}, formal: &formalHeap{prefix: "old!", declare: true, used: map[string]string{}}}
		names := map[string]Val{}
		for _, p := range ld.Params {
			t := P.parseType(ld.Pkg, p.Type)
			names[p.Name] = e.freshVal("arg."+p.Name, t)
		}
		e.topNames = names
		e.h0 = h
		e.caseKey = key
		mk := func(nm map[string]Val) string {
			ctx := &SpecCtx{e: e, names: nm, heap: h, old: old, pkg: ld.Pkg}
			return ctx.evalBool(ld.Body)
		}
		if ld.Induct == "" {
			e.oblige(key+"#direct", "lemma", "true", mk(names), fmt.Sprintf("zz_contracts_verif.go:%d", ld.Line), "lemma "+ld.Name+": "+ld.Src, ld.Props)
			return
		}
		kv, ok := names[ld.Induct]
		if !ok {
			panic(specErr("lemma %s: no parameter %s", ld.Name, ld.Induct))
		}
		goal := mk(names)
		e.oblige(key+"#base", "lemma", sx("<=", kv.S, "0"), goal, fmt.Sprintf("zz_contracts_verif.go:%d", ld.Line), "lemma "+ld.Name+" (base case "+ld.Induct+" <= 0): "+ld.Src, ld.Props)
		prev := map[string]Val{}
		for k, v := range names {
			prev[k] = v
		}
		prev[ld.Induct] = scalar(kv.T, sx("-", kv.S, "1"))
		ih := mk(prev)
		e.assume(sx(">", kv.S, "0"), ih)
		e.oblige(key+"#step", "lemma", sx(">", kv.S, "0"), goal, fmt.Sprintf("zz_contracts_verif.go:%d", ld.Line), "lemma "+ld.Name+" (induction step): "+ld.Src, ld.Props)
	}()
	if res.Err != nil {
		return res
	}
	res.Results = make([]*OblResult, len(e.obls))
	var wg sync.WaitGroup
	for i, o := range e.obls {
		wg.Add(1)
		go func(i int, o *Obl) {
			defer wg.Done()
			res.Results[i] = e.discharge(o, key, opts)
		}(i, o)
	}
	wg.Wait()
	res.Notes = append(res.Notes, "induction over naturals is the trusted meta-step for lemma "+ld.Name)
	return res
}
