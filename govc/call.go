package main

import (
	"fmt"
	"go/constant"
	"go/token"
	"go/types"
	"sort"
	"strings"

	"golang.org/x/tools/go/ssa"
)

func (fr *Frame) call(cc *ssa.CallCommon, in ssa.Instruction, st *BState) Val {
	var args []Val
	for _, a := range cc.Args {
		args = append(args, fr.val(a))
	}
	var recv Val
	if cc.IsInvoke() {
		recv = fr.val(cc.Value)
	} else {
		switch cc.Value.(type) {
		case *ssa.Function, *ssa.Builtin:
		default:
			recv = fr.val(cc.Value)
		}
	}
	return fr.callWith(cc, in, st, args, recv, false)
}

func resultType(sig *types.Signature) types.Type {
	switch sig.Results().Len() {
	case 0:
		return types.NewTuple()
	case 1:
		return sig.Results().At(0).Type()
	}
	return sig.Results()
}

func (fr *Frame) callWith(cc *ssa.CallCommon, in ssa.Instruction, st *BState, args []Val, recv Val, deferred bool) Val {
	e := fr.e
	if cc.IsInvoke() {
		fn := e.P.lookupMethod(cc.Value.Type(), cc.Method.Name())
		if fn == nil {
			if types.TypeString(cc.Value.Type(), nil) == "error" && cc.Method.Name() == "Error" {
				return scalar(types.Typ[types.String], e.fresh("errstr", "Int"))
			}
			panic(unsupported("invoke %s on %v: no unique implementation", cc.Method.Name(), cc.Value.Type()))
		}
		fr.safety(st, "nil", not(eq(recv.S, "0")), in.Pos(), "method call on nil interface: "+cc.Method.Name())
		e.note("A7: interface " + typeKey(cc.Value.Type()) + " has exactly one implementation in the verified packages (checked)")
		rv := scalar(fn.Signature.Recv().Type(), recv.S)
		return fr.callFn(fn, append([]Val{rv}, args...), in, st)
	}
	switch f := cc.Value.(type) {
	case *ssa.Builtin:
		return fr.builtin(f, cc, in, st, args)
	case *ssa.Function:
		return fr.callFn(f, args, in, st)
	}
	// dynamic call through a function value
	switch recv.K {
	case kClosure:
		all := append(append([]Val{}, args...))
		return fr.callClosure(recv, all, in, st)
	case kScalar:
		return fr.callFuncValue(cc, recv, args, in, st)
	}
	panic(unsupported("call through value kind %d", recv.K))
}

func (fr *Frame) callClosure(c Val, args []Val, in ssa.Instruction, st *BState) Val {
	fn := c.Fn
	nf := fr.e.newFrame(fn, fr, args, st.heap)
	for i, fv := range fn.FreeVars {
		nf.env[fv] = c.Fs[i]
	}
	return fr.inlineFrame(nf, in, st)
}

// function-typed field values (callbacks): handled through assumed callback contracts
func (fr *Frame) callFuncValue(cc *ssa.CallCommon, fv Val, args []Val, in ssa.Instruction, st *BState) Val {
	e := fr.e
	// which field was it loaded from?
	name := ""
	var self *Val
	if u, ok := cc.Value.(*ssa.UnOp); ok {
		if fa, ok := u.X.(*ssa.FieldAddr); ok {
			name = fieldName(fa)
			sv := fr.val(fa.X)
			self = &sv
		}
	}
	key := ""
	if fr.fn.Pkg != nil {
		key = fr.fn.Pkg.Pkg.Name() + ".callback." + name
	}
	spec := e.P.Specs[key]
	if spec == nil {
		panic(unsupported("call through function value %q without callback contract", name))
	}
	e.note("A9: callback " + name + " obeys its assumed contract (" + key + ")")
	sig := cc.Value.Type().Underlying().(*types.Signature)
	fr.cbSelf = self
	defer func() { fr.cbSelf = nil }()
	return fr.applyContract(spec, key, sig, args, in, st)
}

func (fr *Frame) callFn(fn *ssa.Function, args []Val, in ssa.Instruction, st *BState) Val {
	e := fr.e
	key := funcKey(fn)
	if fn.Pkg == nil || !strings.HasPrefix(fn.Pkg.Pkg.Path(), modPath) || fn.Blocks == nil {
		return fr.external(fn, args, in, st)
	}
	spec := e.P.Specs[key]
	if spec != nil && !spec.Inline && !(fr.isTop && e.top.fn == fn && false) {
		return fr.applyContract(spec, key, fn.Signature, args, in, st)
	}
	// inline
	for _, s := range fr.stack {
		if s == key {
			panic(unsupported("recursive call to %s needs a contract", key))
		}
	}
	if fr.depth >= e.maxDepth {
		panic(unsupported("inlining depth exceeded at %s", key))
	}
	e.inlined[key] = true
	nf := e.newFrame(fn, fr, args, st.heap)
	return fr.inlineFrame(nf, in, st)
}

func (fr *Frame) inlineFrame(nf *Frame, in ssa.Instruction, st *BState) Val {
	e := fr.e
	fr.ord["call:"+nf.fn.Name()]++
	nf.callpath = fmt.Sprintf("%s%s:%d/", fr.callpath, nf.fn.Name(), fr.ord["call:"+nf.fn.Name()])
	nf.dryStack = nil
	defer func() {
		// (asserts after inlined calls are keyed like contract calls: <name>:<ordinal among inlined calls>)
	}()
	nf.run(st.reach)
	if len(nf.rets) == 0 {
		st.reach = "false"
		return zeroValOrNone(resultType(nf.fn.Signature))
	}
	var ins []edgeInfo
	for _, r := range nf.rets {
		ins = append(ins, edgeInfo{reach: r.reach, heap: r.heap})
	}
	ms := fr.merge(fr.curBlock, ins)
	if len(ins) > 1 {
		// merge() named the reach after the caller's block; that is fine (unique names)
	}
	st.reach, st.heap = ms.reach, ms.heap
	rt := resultType(nf.fn.Signature)
	nres := nf.fn.Signature.Results().Len()
	if nres == 0 {
		return Val{K: kNone}
	}
	mergeVal := func(i int, t types.Type) Val {
		v0 := nf.rets[0].vals[i]
		if len(nf.rets) == 1 {
			return v0
		}
		if v0.K == kAddr || v0.K == kClosure {
			panic(unsupported("merging address-valued results of %s", nf.fn.Name()))
		}
		cs := flatten(t)
		ts := make([]string, len(cs))
		for c := range cs {
			tm := comps(nf.rets[len(nf.rets)-1].vals[i])[c]
			for j := len(nf.rets) - 2; j >= 0; j-- {
				tm = ite(nf.rets[j].reach, comps(nf.rets[j].vals[i])[c], tm)
			}
			ts[c] = e.define(nf.prefix+"ret"+cs[c].Suffix, cs[c].Sort, tm)
		}
		v, _ := fromComps(t, ts)
		// keep table provenance when every return agrees
		g := nf.rets[0].vals[i].Glob
		for _, r := range nf.rets {
			if r.vals[i].Glob != g {
				g = nil
			}
		}
		v.Glob = g
		return v
	}
	if nres == 1 {
		return mergeVal(0, rt)
	}
	tv := Val{T: rt, K: kTuple}
	for i := 0; i < nres; i++ {
		tv.Fs = append(tv.Fs, mergeVal(i, nf.fn.Signature.Results().At(i).Type()))
	}
	return tv
}

func zeroValOrNone(t types.Type) Val {
	if tp, ok := t.(*types.Tuple); ok && tp.Len() == 0 {
		return Val{K: kNone}
	}
	return zeroVal(t)
}

// ---------------------------------------------------------------------------
// contracts at call sites
// ---------------------------------------------------------------------------

func (fr *Frame) applyContract(spec *FuncSpec, key string, sig *types.Signature, args []Val, in ssa.Instruction, st *BState) Val {
	e := fr.e
	e.used[key] = true
	short := key[strings.LastIndex(key, ".")+1:]
	if e.lockCheck && e.dry == 0 && spec.Locked {
		goal := "false"
		if st.heap.lock == "w" || st.heap.lock == "r" {
			goal = "true"
		}
		e.oblige(fr.oname("lock"), "lock", st.reach, goal, fr.pos(in.Pos()), "lock discipline: "+short+" is called with the guarding mutex held", nil)
	}
	fr.ord["callc:"+short]++
	site := fmt.Sprintf("%s:%d", short, fr.ord["callc:"+short])
	names := map[string]Val{}
	for i, n := range spec.Params {
		if i < len(args) && n != "_" && n != "" {
			names[n] = args[i]
		}
	}
	if fr.cbSelf != nil {
		names["self"] = *fr.cbSelf
	}
	pre := st.heap
	// hints
	for i, c := range spec.Asserts["call"] {
		_ = i
		_ = c
	}
	for i, c := range spec.Requires {
		ctx := &SpecCtx{e: e, names: names, heap: pre, old: pre, pkg: spec.Pkg}
		if fr.cbSelf != nil && e.h0 != nil {
			ctx.old = e.h0
		}
		partsL := ctx.evalSplitL(c.Expr)
		var parts []string
		for j, g := range partsL {
			parts = append(parts, g.Term)
			if e.dry == 0 {
				name := fmt.Sprintf("%s#%spre@%s:%d", e.topKey(), fr.callpath, site, i+1)
				src := "precondition of " + short + ": " + c.Src
				if len(partsL) > 1 {
					name = fmt.Sprintf("%s/%d", name, j+1)
					src = "precondition of " + short + " (part): " + g.Desc
				}
				o := e.oblige(name, "pre", st.reach, g.Term, fr.pos(in.Pos()), src, c.Tags)
				o.Site = &SpecCtx{e: e, names: names, heap: pre, old: pre, pkg: spec.Pkg}
				if fr.cbSelf != nil && e.h0 != nil {
					o.Site.old = e.h0
				}
				if len(partsL) > 1 {
					o.Group = fmt.Sprintf("%s#%spre@%s:%d", e.topKey(), fr.callpath, site, i+1)
				}
			}
		}
		if g := and(parts...); g != "true" {
			st.reach = e.define(fr.prefix+"R", "Bool", and(st.reach, g))
		}
	}
	post := pre.clone()
	e.havocModifies(spec, names, pre, post, fr.vname2(in))
	// results
	rnames := map[string]Val{}
	for k, v := range names {
		rnames[k] = v
	}
	var res Val
	nres := sig.Results().Len()
	var rvals []Val
	for i := 0; i < nres; i++ {
		v := e.freshVal(fmt.Sprintf("%s%s#r%d", fr.prefix, site, i), sig.Results().At(i).Type())
		e.assume("true", e.typeFacts(v, post))
		rvals = append(rvals, v)
		n := "result"
		if i > 0 {
			n = fmt.Sprintf("result%d", i)
		}
		rnames[n] = v
		if i < len(spec.Results) && spec.Results[i] != "" && spec.Results[i] != "_" {
			rnames[spec.Results[i]] = v
		}
	}
	switch nres {
	case 0:
		res = Val{K: kNone}
	case 1:
		res = rvals[0]
	default:
		res = Val{T: sig.Results(), K: kTuple, Fs: rvals}
	}
	for _, c := range spec.Ensures {
		ctx := &SpecCtx{e: e, names: rnames, heap: post, old: pre, pkg: spec.Pkg}
		e.assume(st.reach, ctx.evalBool(c.Expr))
	}
	if spec.Trusted {
		e.note("trusted contract (body not verified): " + key)
	}
	st.heap = post
	fr.siteAsserts(site, res, in, st)
	return res
}

// siteAsserts: "//@ assert <callee>:<n> <expr>" clauses of the enclosing function's contract are proved and then
// assumed right after that call returns (intermediate assertions that guide quantifier instantiation).
func (fr *Frame) siteAsserts(site string, res Val, in ssa.Instruction, st *BState) {
	e := fr.e
	sp := e.P.Specs[funcKey(fr.fn)]
	if fr.isTop && fr.spec != nil {
		sp = fr.spec
	}
	if sp == nil {
		return
	}
	for i, c := range sp.Asserts[site] {
		ctx := fr.specCtx(st.heap, fr.curBlock)
		ctx.atIdx = 1 << 30
		for k, bi := range fr.curBlock.Instrs {
			if bi == in {
				ctx.atIdx = k + 1
			}
		}
		// debug references for the call's own result follow the call instruction
		for ctx.atIdx < len(fr.curBlock.Instrs) {
			if _, ok := fr.curBlock.Instrs[ctx.atIdx].(*ssa.DebugRef); ok {
				ctx.atIdx++
				continue
			}
			if _, ok := fr.curBlock.Instrs[ctx.atIdx].(*ssa.Extract); ok {
				ctx.atIdx++
				continue
			}
			break
		}
		if res.K != kNone {
			ctx.names["result"] = res
			if res.K == kTuple {
				for k, f := range res.Fs {
					if k == 0 {
						ctx.names["result"] = f
					} else {
						ctx.names[fmt.Sprintf("result%d", k)] = f
					}
				}
			}
		}
		parts := ctx.evalSplitL(c.Expr)
		var ts []string
		for j, g := range parts {
			ts = append(ts, g.Term)
			if e.dry == 0 {
				o := e.oblige(fmt.Sprintf("%s#%sassert@%s:%d/%d", e.topKey(), fr.callpath, site, i+1, j+1), "assert", st.reach, g.Term, fr.pos(in.Pos()), "assert after "+site+": "+g.Desc, c.Tags)
				if len(parts) > 1 {
					o.Group = fmt.Sprintf("%s#%sassert@%s:%d", e.topKey(), fr.callpath, site, i+1)
				}
			}
		}
		e.assume(st.reach, and(ts...))
	}
}

func (fr *Frame) vname2(in ssa.Instruction) string {
	if v, ok := in.(ssa.Value); ok {
		return fr.vname(v)
	}
	return fr.prefix + "call"
}

// heapNamesUnder lists the heap arrays below "Type.field.path" (all scalar components).
func (e *Enc) heapNamesUnder(pkg string, item string) []([2]string) {
	var out [][2]string
	if strings.HasPrefix(item, "elems(") {
		t := e.P.parseType(pkg, strings.TrimSuffix(strings.TrimPrefix(item, "elems("), ")"))
		for _, c := range flatten(t) {
			out = append(out, [2]string{elemArr(t, nil, c), arrSort('E', c.Sort)})
		}
		return out
	}
	if strings.HasPrefix(item, "map(") {
		t := e.P.parseType(pkg, strings.TrimSuffix(strings.TrimPrefix(item, "map("), ")"))
		mt := t.Underlying().(*types.Map)
		out = append(out, [2]string{mapDom(mt), arrSort('D', "")}, [2]string{mapLen(mt), arrSort('L', "")})
		for _, c := range flatten(mt.Elem()) {
			out = append(out, [2]string{mapVal(mt, c), arrSort('V', c.Sort)})
		}
		return out
	}
	parts := strings.Split(item, ".")
	if _, isPkg := e.P.Pkgs[parts[0]]; isPkg && len(parts) >= 2 {
		if p := e.P.Pkgs[pkg]; p == nil || p.Types.Scope().Lookup(parts[0]) == nil {
			parts = append([]string{parts[0] + "." + parts[1]}, parts[2:]...)
		}
	}
	t := e.P.parseType(pkg, parts[0])
	nt, _ := namedStruct(t)
	if nt == nil {
		panic(fmt.Sprintf("modifies: %s is not a struct type", parts[0]))
	}
	var path []int
	cur := types.Type(nt)
	for _, fn := range parts[1:] {
		st := cur.Underlying().(*types.Struct)
		found := false
		for i := 0; i < st.NumFields(); i++ {
			if st.Field(i).Name() == fn {
				path = append(path, i)
				cur = st.Field(i).Type()
				found = true
				break
			}
		}
		if !found {
			panic(fmt.Sprintf("modifies: no field %s in %s", fn, item))
		}
	}
	for _, c := range flatten(cur) {
		out = append(out, [2]string{fieldArr(nt, path, c), arrSort('F', c.Sort)})
	}
	return out
}

type cellMod struct {
	arr, sort string
	ref       string
}

// resolveModifies turns a modifies clause into whole-array names and designated cells.
func (e *Enc) resolveModifies(spec *FuncSpec, names map[string]Val, pre *Heap) (whole map[string]string, cells []cellMod) {
	whole = map[string]string{}
	for _, mi := range spec.Modifies {
		if mi.Whole != "" {
			for _, ns := range e.heapNamesUnder(spec.Pkg, mi.Whole) {
				whole[ns[0]] = ns[1]
			}
			continue
		}
		ctx := &SpecCtx{e: e, names: names, heap: pre, old: pre, pkg: spec.Pkg}
		// designator: <pointer expr>.<field path through embedded structs> ; "x.*" = every field of *x
		if mi.Obj.Op == "call" && mi.Obj.Name == "elemsof" {
			sv := ctx.eval(mi.Obj.Args[0])
			if sv.K != kSlice {
				panic(specErr("modifies %s: elemsof needs a slice", mi.Src))
			}
			et := sv.T.Underlying().(*types.Slice).Elem()
			for _, c := range flatten(et) {
				cells = append(cells, cellMod{elemArr(et, nil, c), arrSort('E', c.Sort), sv.Arr})
			}
			continue
		}
		chain := []string{}
		node := mi.Obj
		if mi.Field == "*" {
			ov := ctx.eval(node)
			nt, st := namedStruct(e.P.concreteOf(ov.T))
			if nt == nil || ov.K != kScalar {
				panic(specErr("modifies %s: object is not a struct pointer", mi.Src))
			}
			for i := 0; i < st.NumFields(); i++ {
				for _, c := range flatten(st.Field(i).Type()) {
					cells = append(cells, cellMod{fieldArr(nt, []int{i}, c), arrSort('F', c.Sort), ov.S})
				}
			}
			continue
		}
		done := false
		for node.Op == "sel" && !done {
			chain = append([]string{node.Name}, chain...)
			node = node.Args[0]
			func() {
				defer func() {
					if r := recover(); r != nil {
						if _, ok := r.(SpecError); !ok {
							panic(r)
						}
					}
				}()
				ov := ctx.eval(node)
				if ov.K != kScalar {
					return
				}
				nt, _ := namedStruct(e.P.concreteOf(ov.T))
				if nt == nil {
					return
				}
				var path []int
				cur := types.Type(nt)
				for _, fn := range chain {
					st, ok := cur.Underlying().(*types.Struct)
					if !ok {
						return
					}
					fi := -1
					for i := 0; i < st.NumFields(); i++ {
						if st.Field(i).Name() == fn {
							fi = i
						}
					}
					if fi < 0 {
						return
					}
					path = append(path, fi)
					cur = st.Field(fi).Type()
				}
				for _, c := range flatten(cur) {
					cells = append(cells, cellMod{fieldArr(nt, path, c), arrSort('F', c.Sort), ov.S})
				}
				done = true
			}()
		}
		if !done {
			panic(specErr("modifies %s: cannot resolve designator", mi.Src))
		}
	}
	return
}

func (e *Enc) havocModifies(spec *FuncSpec, names map[string]Val, pre, post *Heap, hint string) {
	whole, cells := e.resolveModifies(spec, names, pre)
	var wholeNew []string
	var cellVars [][2]string
	defer func() {
		for _, n := range wholeNew {
			e.assumeClosure(n, post.m[n], post.alloc)
		}
	}()
	for _, n := range sortedKeys(whole) {
		post.m[n] = e.fresh(n, whole[n])
		e.declare(n+"@0", whole[n])
		post.mark(n, 0)
		post.markBase(n, "*")
		wholeNew = append(wholeNew, n)
	}
	for _, c := range cells {
		if _, w := whole[c.arr]; w {
			continue
		}
		H := e.harr(post, c.arr, c.sort)
		compSort := strings.TrimSuffix(strings.TrimPrefix(c.sort, "(Array Int "), ")")
		nv := e.fresh(c.arr+"!cell", compSort)
		e.hset(post, c.arr, c.sort, store(H, c.ref, nv), c.ref)
		if compSort == "Int" {
			cellVars = append(cellVars, [2]string{c.arr, nv})
		}
	}
	// a havoced cell still holds a value of its type: slice/map lengths are non-negative, references point to
	// allocated objects (or are nil) in the post-state
	defer func() {
		for _, cv := range cellVars {
			if d, ok := refArrReg.Load(cv[0]); ok && d.(int) == 1 {
				e.assume("true", and(sx("<=", "0", cv[1]), sx("<=", cv[1], post.alloc)))
			}
			if d, ok := lenArrReg.Load(cv[0]); ok && d.(int) == 1 {
				e.assume("true", sx(">=", cv[1], "0"))
			}
		}
	}()
	if spec.Allocs {
		na := e.fresh("alloc", "Int")
		e.assume("true", sx(">=", na, pre.alloc))
		post.alloc = na
		e.serial++
		for _, it := range spec.AllocList {
			for _, ns := range e.heapNamesUnder(spec.Pkg, it) {
				if _, w := whole[ns[0]]; w {
					continue
				}
				old := e.harr(post, ns[0], ns[1])
				nw := e.fresh(ns[0], ns[1])
				e.assume("true", fmt.Sprintf("(forall ((r Int)) (! (=> (<= r %s) (= (select %s r) (select %s r))) :pattern ((select %s r))))", pre.alloc, nw, old, nw))
				post.m[ns[0]] = nw
				post.mark(ns[0], e.serial)
				post.markBase(ns[0], "*")
				wholeNew = append(wholeNew, ns[0])
			}
		}
	}
}

// ---------------------------------------------------------------------------
// builtins and external functions
// ---------------------------------------------------------------------------

func (fr *Frame) builtin(b *ssa.Builtin, cc *ssa.CallCommon, in ssa.Instruction, st *BState, args []Val) Val {
	e := fr.e
	h := st.heap
	switch b.Name() {
	case "len":
		a := args[0]
		switch {
		case a.K == kSlice:
			return scalar(types.Typ[types.Int], a.Len)
		case isString(cc.Args[0].Type()):
			e.strUsed = true
			return scalar(types.Typ[types.Int], sx("gstr.len", a.S))
		}
		if mt, ok := cc.Args[0].Type().Underlying().(*types.Map); ok {
			l := e.define(fr.vname2(in), "Int", sel(e.harr(h, mapLen(mt), arrSort('L', "")), a.S))
			return scalar(types.Typ[types.Int], l)
		}
	case "cap":
		a := args[0]
		c := e.fresh(fr.vname2(in), "Int")
		e.assume("true", sx(">=", c, a.Len))
		return scalar(types.Typ[types.Int], c)
	case "append":
		return fr.appendOp(cc, in, st, args)
	case "delete":
		mt := cc.Args[0].Type().Underlying().(*types.Map)
		e.mapDelete(h, mt, args[0].S, args[1].S)
		return Val{K: kNone}
	case "print", "println":
		return Val{K: kNone}
	}
	panic(unsupported("builtin %s", b.Name()))
}

func (fr *Frame) staticLen(v ssa.Value) int64 {
	if s, ok := v.(*ssa.Slice); ok && s.Low == nil && s.High == nil {
		if a, ok := s.X.(*ssa.Alloc); ok {
			if at, ok := a.Type().Underlying().(*types.Pointer).Elem().Underlying().(*types.Array); ok {
				return at.Len()
			}
		}
	}
	return -1
}

func (fr *Frame) appendOp(cc *ssa.CallCommon, in ssa.Instruction, st *BState, args []Val) Val {
	e := fr.e
	h := st.heap
	s, t := args[0], args[1]
	if t.K != kSlice {
		if isString(cc.Args[1].Type()) {
			panic(unsupported("append(bytes, string...)"))
		}
		// append(s, nil...)
		return s
	}
	et := cc.Args[0].Type().Underlying().(*types.Slice).Elem()
	r := e.newRef(h, fr.vname2(in)+"#arr")
	k := fr.staticLen(cc.Args[1])
	newLen := e.define(fr.vname2(in)+"#len", "Int", sx("+", s.Len, t.Len))
	for _, c := range flatten(et) {
		n := elemArr(et, nil, c)
		srt := arrSort('E', c.Sort)
		H := e.harr(h, n, srt)
		var inner string
		switch {
		case s.Len == "0":
			inner = sel(H, t.Arr)
		case k >= 0 && k <= 4:
			inner = sel(H, s.Arr)
			for j := int64(0); j < k; j++ {
				inner = store(inner, sx("+", s.Len, num(j)), sel(sel(H, t.Arr), num(j)))
			}
		default:
			inner = e.fresh(fr.vname2(in)+"#inner"+c.Suffix, "(Array Int "+c.Sort+")")
			e.assume("true", fmt.Sprintf("(forall ((i Int)) (! (=> (and (<= 0 i) (< i %s)) (= (select %s i) (select (select %s %s) i))) :pattern ((select %s i))))", s.Len, inner, H, s.Arr, inner))
			e.assume("true", fmt.Sprintf("(forall ((i Int)) (! (=> (and (<= %s i) (< i %s)) (= (select %s i) (select (select %s %s) (- i %s)))) :pattern ((select %s i))))", s.Len, newLen, inner, H, t.Arr, s.Len, inner))
		}
		e.hset(h, n, srt, store(H, r, inner), r)
		e.storeHint(h.m[n], H, r)
	}
	e.note("append always yields a fresh backing array (spare capacity is never shared)")
	return Val{T: cc.Args[0].Type(), K: kSlice, Arr: r, Len: newLen}
}

func (fr *Frame) external(fn *ssa.Function, args []Val, in ssa.Instruction, st *BState) Val {
	res := fr.external0(fn, args, in, st)
	fr.ord["callx:"+fn.Name()]++
	fr.siteAsserts(fmt.Sprintf("%s:%d", fn.Name(), fr.ord["callx:"+fn.Name()]), res, in, st)
	return res
}

func (fr *Frame) external0(fn *ssa.Function, args []Val, in ssa.Instruction, st *BState) Val {
	e := fr.e
	name := fn.String()
	rt := resultType(fn.Signature)
	havoc := func() Val {
		if tp, ok := rt.(*types.Tuple); ok && tp.Len() == 0 {
			return Val{K: kNone}
		}
		v := e.freshVal(fr.vname2(in), rt)
		e.assume("true", e.typeFacts(v, st.heap))
		return v
	}
	switch name {
	case "(*sync.RWMutex).Lock", "(*sync.RWMutex).Unlock", "(*sync.RWMutex).RLock", "(*sync.RWMutex).RUnlock",
		"(*sync.Mutex).Lock", "(*sync.Mutex).Unlock":
		e.note("A5: sync.RWMutex gives mutual exclusion; its operations are no-ops for the sequential semantics")
		if e.lockCheck {
			switch {
			case strings.HasSuffix(name, ".Lock"):
				st.heap.lock = "w"
			case strings.HasSuffix(name, ".RLock"):
				st.heap.lock = "r"
			default:
				st.heap.lock = ""
			}
		}
		return Val{K: kNone}
	case "time.Now", "(time.Time).UnixNano", "(time.Time).Unix", "math/rand.Seed":
		e.note("A5: time/rand values are havoc")
		return havoc()
	case "fmt.Println", "fmt.Printf", "fmt.Print":
		return havoc()
	case "fmt.Sprintf", "fmt.Sprint":
		e.note("A5: fmt.Sprintf result is an uninterpreted string")
		return havoc()
	case "math.Ceil", "math.Floor":
		e.note("A5/A6: math.Ceil/Floor on exact rationals")
		x := args[0]
		if x.K != kRat {
			panic(unsupported("math.Ceil/Floor on a non-rational value"))
		}
		if x.Den == "1" {
			return x
		}
		q := e.fresh(fr.vname2(in)+"#q", "Int")
		okc := and(st.reach, sx(">", x.Den, "0"), not(spOf(x)), not(infOf(x)), not(ninfOf(x)))
		if name == "math.Floor" {
			e.assume(okc, and(sx("<=", sx("*", q, x.Den), x.Num), sx("<", x.Num, sx("*", sx("+", q, "1"), x.Den))))
		} else {
			e.assume(okc, and(sx("<", sx("*", sx("-", q, "1"), x.Den), x.Num), sx("<=", x.Num, sx("*", q, x.Den))))
		}
		return Val{T: rt, K: kRat, Num: q, Den: "1", Sp: x.Sp, Inf: x.Inf, NInf: x.NInf}
	case "math/rand.Intn":
		e.note("A5: rand.Intn(n) returns some value in [0,n) and panics for n <= 0")
		fr.safety(st, "randn", sx(">", args[0].S, "0"), in.Pos(), "rand.Intn argument must be positive")
		v := havoc()
		e.assume(sx(">", args[0].S, "0"), and(sx("<=", "0", v.S), sx("<", v.S, args[0].S)))
		return v
	case "sort.Slice":
		return fr.sortSlice(args, in, st)
	case "math/rand.Shuffle":
		return fr.shuffle(args, in, st)
	case "errors.New":
		v := havoc()
		return v
	case "strings.HasSuffix", "strings.HasPrefix", "strings.Contains":
		// strings are interned integers: the predicate is an uninterpreted function of the two codes, fixed by the real
		// library function on every string literal of the loaded packages when the second argument is a constant
		fnm := map[string]string{"strings.HasSuffix": "gstr.hassuffix", "strings.HasPrefix": "gstr.hasprefix", "strings.Contains": "gstr.contains"}[name]
		e.decls2(fmt.Sprintf("(declare-fun %s (Int Int) Bool)", fnm))
		var arg1 ssa.Value
		if ci, ok := in.(ssa.CallInstruction); ok && len(ci.Common().Args) == 2 {
			arg1 = ci.Common().Args[1]
		}
		if cst, ok := arg1.(*ssa.Const); ok && cst.Value != nil && cst.Value.Kind() == constant.String {
			t := constant.StringVal(cst.Value)
			key := fnm + "|" + t
			if e.strFacts == nil {
				e.strFacts = map[string]bool{}
			}
			if !e.strFacts[key] {
				e.strFacts[key] = true
				var facts []string
				for code, lit := range e.P.strSnapshot() {
					var b bool
					switch name {
					case "strings.HasSuffix":
						b = strings.HasSuffix(lit, t)
					case "strings.HasPrefix":
						b = strings.HasPrefix(lit, t)
					default:
						b = strings.Contains(lit, t)
					}
					f := sx(fnm, num(int64(code)), args[1].S)
					if !b {
						f = not(f)
					}
					facts = append(facts, f)
				}
				e.assume("true", and(facts...))
			}
			e.note("A5: " + name + " with a constant second argument is decided on every string literal of the loaded packages and left open on any other string")
		}
		return scalar(types.Typ[types.Bool], sx(fnm, args[0].S, args[1].S))
	}
	if sp := e.P.Specs["ext."+name]; sp != nil {
		return fr.applyContract(sp, "ext."+name, fn.Signature, args, in, st)
	}
	panic(unsupported("external function %s", name))
}

// rand.Shuffle(n, swap): assumed (A5) to call swap(i, j) finitely often with 0 <= i, j < n and nothing else.
// The closure is run once from an arbitrary intermediate state: its safety obligations are generated there,
// and it must be a transposition of the captured slice (obligation), which makes the result a permutation.
func (fr *Frame) shuffle(args []Val, in ssa.Instruction, st *BState) Val {
	e := fr.e
	e.note("A5: rand.Shuffle(n, swap) only calls swap(i, j) with 0 <= i, j < n, finitely often")
	n := args[0].S
	cl := args[1]
	if cl.K != kClosure {
		panic(unsupported("rand.Shuffle with a non-literal swap function"))
	}
	mk := func(hint string) Val {
		v := e.freshVal(fr.vname2(in)+hint, tInt)
		e.assume(sx(">", n, "0"), and(sx("<=", "0", v.S), sx("<", v.S, n)))
		return v
	}
	// 1. dry run: which arrays does swap write?
	nl, no := len(e.lines), len(e.obls)
	savedNotes := e.notes
	e.notes = map[string]bool{}
	e.dry++
	ds := BState{reach: st.reach, heap: st.heap.clone()}
	ds.heap.dirty = map[string]int{}
	serial0 := e.serial
	fr.callClosure(cl, []Val{mk("#di"), mk("#dj")}, in, &ds)
	dirty := ds.heap.dirty
	e.dry--
	e.lines = e.lines[:nl]
	e.obls = e.obls[:no]
	e.notes = savedNotes
	// 2. arbitrary intermediate state of the captured slice (everything else the closure writes is refused)
	if len(cl.Fs) != 1 || cl.Fs[0].K != kAddr {
		panic(unsupported("rand.Shuffle: swap closure must capture exactly one slice variable"))
	}
	sv := e.loadAt(st.heap, cl.Fs[0].A)
	if sv.K != kSlice {
		panic(unsupported("rand.Shuffle: captured variable is not a slice"))
	}
	pre := st.heap
	mid := pre.clone()
	var names []string
	for k, v := range dirty {
		if v <= serial0 {
			names = append(names, k)
		}
	}
	sort.Strings(names)
	inner := map[string]string{}
	for _, k := range names {
		if !strings.HasPrefix(k, "E_") {
			panic(unsupported("rand.Shuffle: swap closure writes %s", k))
		}
		srt := e.hsort(k)
		compSort := strings.TrimSuffix(strings.TrimPrefix(srt, "(Array Int (Array Int "), "))")
		inner[k] = e.fresh(k+"!shuffled", "(Array Int "+compSort+")")
		e.hset(mid, k, srt, store(e.harr(pre, k, srt), sv.Arr, inner[k]), "")
	}
	ms := BState{reach: e.define(fr.prefix+"Rshuffle", "Bool", and(st.reach, sx(">", n, "0"))), heap: mid.clone()}
	i, j := mk("#i"), mk("#j")
	fr.callClosure(cl, []Val{i, j}, in, &ms)
	// 3. the closure must be exactly the transposition (i j) of the captured slice's backing array
	for _, k := range names {
		srt := e.hsort(k)
		before := e.harr(mid, k, srt)
		after := e.harr(ms.heap, k, srt)
		a0 := sel(before, sv.Arr)
		want := store(before, sv.Arr, store(store(a0, i.S, sel(a0, j.S)), j.S, sel(a0, i.S)))
		if e.dry == 0 {
			e.oblige(fr.oname("swap"), "swap", ms.reach, eq(after, want), fr.pos(in.Pos()), "swap closure of rand.Shuffle is a transposition of elements i and j and changes nothing else ("+k+")", nil)
		}
		// 4. result: a permutation of the first n elements
		e.permFacts(sel(e.harr(pre, k, srt), sv.Arr), inner[k], n)
	}
	st.heap = mid
	return Val{K: kNone}
}

// permFacts: inner array `fin` is a permutation (on [0,n)) of `orig`, identical elsewhere.
func (e *Enc) permFacts(orig, fin, n string) string {
	e.names["perm"]++
	id := e.names["perm"]
	pi := fmt.Sprintf("|perm.pi%d|", id)
	pinv := fmt.Sprintf("|perm.inv%d|", id)
	e.decls = append(e.decls, fmt.Sprintf("(declare-fun %s (Int) Int)", pi), fmt.Sprintf("(declare-fun %s (Int) Int)", pinv))
	e.assume("true", fmt.Sprintf("(forall ((k Int)) (! (=> (and (<= 0 k) (< k %s)) (and (<= 0 (%s k)) (< (%s k) %s) (= (select %s k) (select %s (%s k))) (= (%s (%s k)) k))) :pattern ((select %s k))))", n, pi, pi, n, fin, orig, pi, pinv, pi, fin))
	e.assume("true", fmt.Sprintf("(forall ((m Int)) (! (=> (and (<= 0 m) (< m %s)) (and (<= 0 (%s m)) (< (%s m) %s) (= (%s (%s m)) m))) :pattern ((%s m))))", n, pinv, pinv, n, pi, pinv, pinv))
	e.assume("true", fmt.Sprintf("(forall ((k Int)) (! (=> (or (< k 0) (>= k %s)) (= (select %s k) (select %s k))) :pattern ((select %s k))))", n, fin, orig, fin))
	// every old element is found again (at position inv(m))
	e.assume("true", fmt.Sprintf("(forall ((m Int)) (! (=> (and (<= 0 m) (< m %s)) (and (<= 0 (%s m)) (< (%s m) %s) (= (select %s (%s m)) (select %s m)))) :pattern ((select %s m))))", n, pinv, pinv, n, fin, pinv, orig, orig))
	e.note("lemma (meta, trusted): a finite composition of transpositions is a permutation")
	return pi
}

// matchLess recognises the closure shape  func(i, j int) bool { return s[i].F OP s[j].F }  (OP in <, >)
// and returns the struct type, field index and whether the order is ascending.
func matchLess(fn *ssa.Function) (types.Type, int, bool, bool) {
	if len(fn.Blocks) != 1 || len(fn.Params) != 2 {
		return nil, 0, false, false
	}
	var ret *ssa.Return
	for _, in := range fn.Blocks[0].Instrs {
		if r, ok := in.(*ssa.Return); ok {
			ret = r
		}
	}
	if ret == nil || len(ret.Results) != 1 {
		return nil, 0, false, false
	}
	bo, ok := ret.Results[0].(*ssa.BinOp)
	if !ok || (bo.Op != token.LSS && bo.Op != token.GTR) {
		return nil, 0, false, false
	}
	side := func(v ssa.Value) (types.Type, int, *ssa.Parameter, bool) {
		ld, ok := v.(*ssa.UnOp)
		if !ok || ld.Op != token.MUL {
			return nil, 0, nil, false
		}
		fa, ok := ld.X.(*ssa.FieldAddr)
		if !ok {
			return nil, 0, nil, false
		}
		ld2, ok := fa.X.(*ssa.UnOp)
		if !ok || ld2.Op != token.MUL {
			return nil, 0, nil, false
		}
		ia, ok := ld2.X.(*ssa.IndexAddr)
		if !ok {
			return nil, 0, nil, false
		}
		p, ok := ia.Index.(*ssa.Parameter)
		if !ok {
			return nil, 0, nil, false
		}
		nt, _ := namedStruct(fa.X.Type())
		if nt == nil {
			return nil, 0, nil, false
		}
		return nt, fa.Field, p, true
	}
	tx, fx, px, ok1 := side(bo.X)
	ty, fy, py, ok2 := side(bo.Y)
	if !ok1 || !ok2 || fx != fy || !types.Identical(tx, ty) || px != fn.Params[0] || py != fn.Params[1] {
		return nil, 0, false, false
	}
	return tx, fx, bo.Op == token.LSS, true
}

// sort.Slice(s, less): assumed contract (A5) — the elements of s are permuted so that they are ordered by the
// key read mechanically from the less closure; for len(s) <= 12 the sort is additionally stable (Go's pdqsort
// falls back to insertion sort below 12 elements).
func (fr *Frame) sortSlice(args []Val, in ssa.Instruction, st *BState) Val {
	e := fr.e
	if args[0].Box == nil || args[0].Box.K != kSlice || args[1].K != kClosure {
		panic(unsupported("sort.Slice on a value that is not a directly boxed slice with a literal less function"))
	}
	s := *args[0].Box
	nt, field, asc, ok := matchLess(args[1].Fn)
	if !ok {
		panic(unsupported("sort.Slice: less function is not of the form s[i].F < s[j].F"))
	}
	e.note("A5: sort.Slice permutes the slice into key order (stable for len <= 12)")
	et := s.T.Underlying().(*types.Slice).Elem()
	cs := flatten(et)
	if len(cs) != 1 {
		panic(unsupported("sort.Slice on a slice of composite values"))
	}
	h := st.heap
	n := elemArr(et, nil, cs[0])
	srt := arrSort('E', cs[0].Sort)
	H := e.harr(h, n, srt)
	orig := e.define(fr.vname2(in)+"#orig", "(Array Int Int)", sel(H, s.Arr))
	fin := e.fresh(fr.vname2(in)+"#sorted", "(Array Int Int)")
	e.hset(h, n, srt, store(H, s.Arr, fin), "")
	pi := e.permFacts(orig, fin, s.Len)
	st0 := nt.Underlying().(*types.Struct)
	kc := flatten(st0.Field(field).Type())
	if len(kc) != 1 || kc[0].Sort != "Int" {
		panic(unsupported("sort.Slice: key field is not an integer"))
	}
	K := e.harr(h, fieldArr(nt, []int{field}, kc[0]), arrSort('F', kc[0].Sort))
	op := "<="
	if !asc {
		op = ">="
	}
	e.assume("true", fmt.Sprintf("(forall ((i Int) (j Int)) (! (=> (and (<= 0 i) (< i j) (< j %s)) (%s (select %s (select %s i)) (select %s (select %s j)))) :pattern ((select %s i) (select %s j))))", s.Len, op, K, fin, K, fin, fin, fin))
	// stability below 12 elements
	e.assume("true", fmt.Sprintf("(=> (<= %s 12) (forall ((i Int) (j Int)) (! (=> (and (<= 0 i) (< i j) (< j %s) (= (select %s (select %s i)) (select %s (select %s j)))) (< (%s i) (%s j))) :pattern ((select %s i) (select %s j)))))", s.Len, s.Len, K, fin, K, fin, pi, pi, fin, fin))
	return Val{K: kNone}
}
