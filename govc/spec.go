package main

import (
	"fmt"
	"os"
	"path/filepath"
	"strconv"
	"strings"
	"unicode"
)

// ---------------------------------------------------------------------------
// Spec expression AST + parser
// ---------------------------------------------------------------------------

type SNode struct {
	Op   string // ident, int, str, bool, nil, sel, index, slice, call, un, bin, forall, exists, old
	Name string // ident name / selector / operator / call name
	Int  int64
	Args []*SNode
	Vars []SVar // quantifier variables
	Src  string
}

type SVar struct {
	Name string
	Type string // "" = int
}

type tok struct {
	k string // id int str op eof
	s string
}

func lexSpec(src string) ([]tok, error) {
	var out []tok
	i := 0
	for i < len(src) {
		c := src[i]
		switch {
		case c == ' ' || c == '\t' || c == '\n':
			i++
		case unicode.IsLetter(rune(c)) || c == '_' || c == '$':
			j := i
			for j < len(src) && (unicode.IsLetter(rune(src[j])) || unicode.IsDigit(rune(src[j])) || src[j] == '_' || src[j] == '$') {
				j++
			}
			out = append(out, tok{"id", src[i:j]})
			i = j
		case unicode.IsDigit(rune(c)):
			j := i
			for j < len(src) && (unicode.IsDigit(rune(src[j])) || src[j] == '_') {
				j++
			}
			out = append(out, tok{"int", strings.ReplaceAll(src[i:j], "_", "")})
			i = j
		case c == '"':
			j := i + 1
			for j < len(src) && src[j] != '"' {
				j++
			}
			if j >= len(src) {
				return nil, fmt.Errorf("unterminated string in %q", src)
			}
			out = append(out, tok{"str", src[i+1 : j]})
			i = j + 1
		default:
			ops := []string{"<==>", "==>", "::", "..", "==", "!=", "<=", ">=", "&&", "||", "<", ">", "+", "-", "*", "/", "%", "!", "(", ")", "[", "]", ",", ".", ":", "{", "}", "|"}
			found := false
			for _, o := range ops {
				if strings.HasPrefix(src[i:], o) {
					out = append(out, tok{"op", o})
					i += len(o)
					found = true
					break
				}
			}
			if !found {
				return nil, fmt.Errorf("bad character %q in spec %q", c, src)
			}
		}
	}
	out = append(out, tok{"eof", ""})
	return out, nil
}

type sparser struct {
	t   []tok
	p   int
	src string
}

func parseSpec(src string) (n *SNode, err error) {
	toks, err := lexSpec(src)
	if err != nil {
		return nil, err
	}
	ps := &sparser{t: toks, src: src}
	defer func() {
		if r := recover(); r != nil {
			if s, ok := r.(string); ok {
				err = fmt.Errorf("spec parse error: %s in %q", s, src)
				return
			}
			panic(r)
		}
	}()
	n = ps.expr(0)
	if ps.peek().k != "eof" {
		panic("unexpected " + ps.peek().s)
	}
	n.Src = src
	return n, nil
}

func (p *sparser) peek() tok { return p.t[p.p] }
func (p *sparser) next() tok { t := p.t[p.p]; p.p++; return t }
func (p *sparser) isOp(s string) bool {
	t := p.peek()
	return t.k == "op" && t.s == s
}
func (p *sparser) expect(s string) {
	if !p.isOp(s) {
		panic("expected " + s + " got " + p.peek().s)
	}
	p.p++
}

var binPrec = map[string]int{
	"<==>": 1, "==>": 2, "||": 3, "&&": 4,
	"==": 5, "!=": 5, "<": 5, "<=": 5, ">": 5, ">=": 5,
	"+": 6, "-": 6, "*": 7, "/": 7, "%": 7,
}

func (p *sparser) expr(minPrec int) *SNode {
	lhs := p.unary()
	for {
		t := p.peek()
		if t.k != "op" {
			return lhs
		}
		pr, ok := binPrec[t.s]
		if !ok || pr < minPrec {
			return lhs
		}
		p.next()
		var rhs *SNode
		if t.s == "==>" { // right associative
			rhs = p.expr(pr)
		} else {
			rhs = p.expr(pr + 1)
		}
		lhs = &SNode{Op: "bin", Name: t.s, Args: []*SNode{lhs, rhs}}
	}
}

func (p *sparser) unary() *SNode {
	if p.isOp("!") || p.isOp("-") {
		op := p.next().s
		x := p.unary()
		return &SNode{Op: "un", Name: op, Args: []*SNode{x}}
	}
	return p.postfix(p.primary())
}

func (p *sparser) postfix(x *SNode) *SNode {
	for {
		switch {
		case p.isOp("."):
			p.next()
			t := p.next()
			if t.k != "id" {
				panic("selector expects identifier")
			}
			if x.Op == "ident" && p.isOp("(") {
				// qualified predicate call pkg.Name(args)
				p.next()
				n := &SNode{Op: "call", Name: x.Name + "." + t.s}
				for !p.isOp(")") {
					n.Args = append(n.Args, p.expr(0))
					if p.isOp(",") {
						p.next()
					}
				}
				p.expect(")")
				x = n
				continue
			}
			x = &SNode{Op: "sel", Name: t.s, Args: []*SNode{x}}
		case p.isOp("["):
			p.next()
			var lo, hi *SNode
			if !p.isOp(":") {
				lo = p.expr(0)
			}
			if p.isOp(":") {
				p.next()
				if !p.isOp("]") {
					hi = p.expr(0)
				}
				p.expect("]")
				x = &SNode{Op: "slice", Args: []*SNode{x, lo, hi}}
			} else {
				p.expect("]")
				x = &SNode{Op: "index", Args: []*SNode{x, lo}}
			}
		default:
			return x
		}
	}
}

func (p *sparser) typeExpr() string {
	s := ""
	for {
		if p.isOp("*") {
			p.next()
			s += "*"
		} else if p.isOp("[") {
			p.next()
			p.expect("]")
			s += "[]"
		} else {
			break
		}
	}
	t := p.next()
	if t.k != "id" {
		panic("type expected")
	}
	s += t.s
	if p.isOp(".") {
		p.next()
		s += "." + p.next().s
	}
	return s
}

func (p *sparser) primary() *SNode {
	t := p.next()
	switch t.k {
	case "int":
		v, err := strconv.ParseInt(t.s, 10, 64)
		if err != nil {
			panic("bad int " + t.s)
		}
		return &SNode{Op: "int", Int: v}
	case "str":
		return &SNode{Op: "str", Name: t.s}
	case "id":
		switch t.s {
		case "true", "false":
			return &SNode{Op: "bool", Name: t.s}
		case "nil":
			return &SNode{Op: "nil"}
		case "forall", "exists":
			n := &SNode{Op: t.s}
			for {
				v := p.next()
				if v.k != "id" {
					panic("quantifier variable expected")
				}
				sv := SVar{Name: v.s}
				if !p.isOp(",") && !p.isOp("::") {
					sv.Type = p.typeExpr()
				}
				n.Vars = append(n.Vars, sv)
				if p.isOp(",") {
					p.next()
					continue
				}
				break
			}
			// propagate a trailing type to untyped predecessors: "forall i, j int"
			for i := len(n.Vars) - 2; i >= 0; i-- {
				if n.Vars[i].Type == "" {
					n.Vars[i].Type = n.Vars[i+1].Type
				}
			}
			p.expect("::")
			n.Args = []*SNode{p.expr(0)}
			return n
		}
		if p.isOp("(") {
			p.next()
			n := &SNode{Op: "call", Name: t.s}
			for !p.isOp(")") {
				n.Args = append(n.Args, p.expr(0))
				if p.isOp(",") {
					p.next()
				}
			}
			p.expect(")")
			if t.s == "old" {
				if len(n.Args) != 1 {
					panic("old takes one argument")
				}
				n.Op = "old"
			}
			return n
		}
		return &SNode{Op: "ident", Name: t.s}
	case "op":
		if t.s == "(" {
			x := p.expr(0)
			p.expect(")")
			return x
		}
	}
	panic("unexpected token " + t.s)
}

// ---------------------------------------------------------------------------
// Contract files
// ---------------------------------------------------------------------------

type Clause struct {
	Expr *SNode
	Src  string
	Tags []string // property tags
	Line int
}

type ModItem struct {
	// either Whole ("Type.field.path" or heap-kind item) or an object designator expression + field path
	Whole string
	Obj   *SNode
	Field string
	Src   string
}

type LoopSpec struct {
	Invariants []Clause
	Decreases  *SNode
	Unroll     int
}

type FuncSpec struct {
	Hints     bool // emit array-store instantiation hints while encoding this function
	OpaqueMul bool // products of two non-constant program integers are encoded as the uninterpreted umul(a, b) (clause "opaquemul")
	Key       string
	Pkg       string
	Params    []string // receiver first
	Results   []string
	Props     []string
	Requires  []Clause
	Ensures   []Clause
	Modifies  []ModItem
	HasMod    bool
	Allocs    bool
	AllocList []string
	Loops     map[int]*LoopSpec
	Inline    bool                // contract only used when verifying; callers inline the body
	Trusted   bool                // contract assumed, body not verified (listed in evidence)
	Asserts   map[string][]Clause // keyed "call:<callee>:<n>" — hints assumed+proved before a call
	File      string
	Line      int
	Locks     bool     // public method: acquires the guarding mutex itself (lock discipline is checked)
	Locked    bool     // helper: must be called with the guarding mutex held
	Cases     []Clause // optional case split: the body is verified once per case (param == constant cases are substituted)
}

type PredDef struct {
	Name   string
	Pkg    string
	Params []string
	Body   *SNode
	Src    string
}

type LemmaDef struct {
	Name   string
	Pkg    string
	Params []FunParam
	Induct string // induction variable ("" = direct proof)
	For    string // trigger function: instances are assumed wherever FOR(args) is evaluated
	Body   *SNode
	Src    string
	Props  []string
	Line   int
}

type FunParam struct {
	Name string
	Type string
}

// FunDef: a (possibly recursive) pure spec function over the heap.
type FunDef struct {
	Name   string
	Pkg    string
	Params []FunParam
	Result string // "int" | "bool"
	Body   *SNode
	Src    string
}

func parseFunParams(s string) []FunParam {
	var out []FunParam
	for _, p := range splitTop(s, ',') {
		fs := strings.Fields(p)
		if len(fs) == 0 {
			continue
		}
		fp := FunParam{Name: fs[0], Type: "int"}
		if len(fs) > 1 {
			fp.Type = strings.Join(fs[1:], "")
		}
		out = append(out, fp)
	}
	return out
}

var modsets = map[string]string{}

var clauseKW = map[string]bool{"fun": true, "modset": true, "pred": true, "func": true, "lemma": true, "props": true, "requires": true,
	"modifies": true, "allocs": true, "ensures": true, "loop": true, "inline": true, "trusted": true, "assert": true, "case": true, "locks": true, "locked": true, "guarded": true, "hints": true, "opaquemul": true, "ghost": true, "jsonclosed": true, "onlypassedto": true}

func (P *Program) loadContracts() error {
	for name, pkg := range P.Pkgs {
		if len(pkg.GoFiles) == 0 {
			continue
		}
		dir := filepath.Dir(pkg.GoFiles[0])
		files, _ := filepath.Glob(filepath.Join(dir, "zz_contracts*_verif.go"))
		for _, f := range files {
			if err := P.loadContractFile(name, f); err != nil {
				return err
			}
		}
	}
	return nil
}

func splitTop(s string, sep byte) []string {
	var out []string
	depth := 0
	last := 0
	for i := 0; i < len(s); i++ {
		switch s[i] {
		case '(', '[':
			depth++
		case ')', ']':
			depth--
		case sep:
			if depth == 0 {
				out = append(out, strings.TrimSpace(s[last:i]))
				last = i + 1
			}
		}
	}
	if strings.TrimSpace(s[last:]) != "" {
		out = append(out, strings.TrimSpace(s[last:]))
	}
	return out
}

func (P *Program) loadContractFile(pkg, file string) error {
	b, err := os.ReadFile(file)
	if err != nil {
		return err
	}
	type rawClause struct {
		kw, text string
		line     int
	}
	var raws []rawClause
	for i, ln := range strings.Split(string(b), "\n") {
		t := strings.TrimSpace(ln)
		if !strings.HasPrefix(t, "//@") {
			continue
		}
		t = strings.TrimSpace(t[3:])
		if k := strings.Index(t, "--"); k >= 0 {
			t = strings.TrimSpace(t[:k])
		}
		if t == "" {
			continue
		}
		kw := t
		if k := strings.IndexAny(t, " \t"); k >= 0 {
			kw = t[:k]
		}
		if clauseKW[kw] {
			raws = append(raws, rawClause{kw, strings.TrimSpace(t[len(kw):]), i + 1})
		} else {
			if len(raws) == 0 {
				return fmt.Errorf("%s:%d: continuation without clause", file, i+1)
			}
			raws[len(raws)-1].text += " " + t
		}
	}
	var cur *FuncSpec
	mkClause := func(text string, line int) (Clause, error) {
		// optional leading tags "[C01 C12]"
		var tags []string
		if strings.HasPrefix(text, "[") {
			k := strings.Index(text, "]")
			tags = strings.Fields(text[1:k])
			text = strings.TrimSpace(text[k+1:])
		}
		n, err := parseSpec(text)
		if err != nil {
			return Clause{}, fmt.Errorf("%s:%d: %v", file, line, err)
		}
		return Clause{Expr: n, Src: text, Tags: tags, Line: line}, nil
	}
	for _, rc := range raws {
		switch rc.kw {
		case "guarded":
			// guarded <Type>.<mutex field> protects item, item, ...
			k := strings.Index(rc.text, "protects")
			if k < 0 {
				return fmt.Errorf("%s:%d: guarded needs 'protects'", file, rc.line)
			}
			P.Guards = append(P.Guards, &GuardDef{Pkg: pkg, Mutex: strings.TrimSpace(rc.text[:k]), Items: splitTop(rc.text[k+len("protects"):], ',')})
			cur = nil
		case "jsonclosed", "onlypassedto":
			sd, err := parseStructDirective(pkg, rc.kw, rc.text, file, rc.line)
			if err != nil {
				return err
			}
			P.Structs = append(P.Structs, sd)
			cur = nil
		case "ghost":
			// ghost <name> <Go type>: a specification-only variable, modelled as a field of one ghost object per
			// package. Code never touches it; only contracts (of callbacks) may list it under modifies.
			fs := strings.Fields(rc.text)
			if len(fs) < 2 {
				return fmt.Errorf("%s:%d: ghost needs a name and a type", file, rc.line)
			}
			P.GhostDecls[pkg] = append(P.GhostDecls[pkg], [2]string{fs[0], strings.Join(fs[1:], " ")})
			cur = nil
		case "modset":
			k := strings.Index(rc.text, "=")
			modsets[pkg+"."+strings.TrimSpace(rc.text[:k])] = strings.TrimSpace(rc.text[k+1:])
			cur = nil
		case "pred":
			// Name(a, b) = body
			k := strings.Index(rc.text, "=")
			head := strings.TrimSpace(rc.text[:k])
			body := strings.TrimSpace(rc.text[k+1:])
			op := strings.Index(head, "(")
			name := strings.TrimSpace(head[:op])
			params := splitTop(head[op+1:strings.LastIndex(head, ")")], ',')
			n, err := parseSpec(body)
			if err != nil {
				return fmt.Errorf("%s:%d: %v", file, rc.line, err)
			}
			pd := &PredDef{Name: name, Pkg: pkg, Params: params, Body: n, Src: body}
			P.Preds[pkg+"."+name] = pd
			cur = nil
		case "fun":
			// NAME(a T, b int) int = body
			k := strings.Index(rc.text, " = ")
			if k < 0 {
				return fmt.Errorf("%s:%d: fun needs ' = '", file, rc.line)
			}
			head := strings.TrimSpace(rc.text[:k])
			body := strings.TrimSpace(rc.text[k+3:])
			op := strings.Index(head, "(")
			cl := strings.LastIndex(head, ")")
			fd := &FunDef{Name: strings.TrimSpace(head[:op]), Pkg: pkg, Params: parseFunParams(head[op+1 : cl]), Result: strings.TrimSpace(head[cl+1:]), Src: body}
			if fd.Result == "" {
				fd.Result = "int"
			}
			n, err := parseSpec(body)
			if err != nil {
				return fmt.Errorf("%s:%d: %v", file, rc.line, err)
			}
			fd.Body = n
			P.Funs[pkg+"."+fd.Name] = fd
			cur = nil
		case "lemma":
			// NAME(a T, k int) [for FUN] [induction k] [props Cxx Cyy] : body
			k := strings.Index(rc.text, ":")
			for k >= 0 && k+1 < len(rc.text) && rc.text[k+1] == ':' {
				k2 := strings.Index(rc.text[k+2:], ":")
				k = k + 2 + k2
			}
			head := strings.TrimSpace(rc.text[:k])
			body := strings.TrimSpace(rc.text[k+1:])
			op := strings.Index(head, "(")
			cl := strings.Index(head, ")")
			ld := &LemmaDef{Name: strings.TrimSpace(head[:op]), Pkg: pkg, Params: parseFunParams(head[op+1 : cl]), Src: body, Line: rc.line}
			fs := strings.Fields(head[cl+1:])
			for i := 0; i < len(fs); i++ {
				switch fs[i] {
				case "for":
					ld.For = fs[i+1]
					i++
				case "induction":
					ld.Induct = fs[i+1]
					i++
				case "props":
					ld.Props = append(ld.Props, fs[i+1:]...)
					i = len(fs)
				}
			}
			n, err := parseSpec(body)
			if err != nil {
				return fmt.Errorf("%s:%d: %v", file, rc.line, err)
			}
			ld.Body = n
			P.Lemmas = append(P.Lemmas, ld)
			cur = nil
		case "func":
			// (*player).pay(p, chips, isWager) (err)
			text := rc.text
			var key, plist, rlist string
			if strings.HasPrefix(text, "(") {
				k := strings.Index(text, ")")
				rest := text[k+1:]
				op := strings.Index(rest, "(")
				if op < 0 {
					key = text
				} else {
					key = text[:k+1] + strings.TrimSpace(rest[:op])
					rest = rest[op:]
					cl := strings.Index(rest, ")")
					plist = rest[1:cl]
					rest = strings.TrimSpace(rest[cl+1:])
					if strings.HasPrefix(rest, "(") {
						rlist = rest[1:strings.Index(rest, ")")]
					}
				}
			} else {
				op := strings.Index(text, "(")
				if op < 0 {
					key = text
				} else {
					key = strings.TrimSpace(text[:op])
					rest := text[op:]
					cl := strings.Index(rest, ")")
					plist = rest[1:cl]
					rest = strings.TrimSpace(rest[cl+1:])
					if strings.HasPrefix(rest, "(") {
						rlist = rest[1:strings.Index(rest, ")")]
					}
				}
			}
			full := pkg + "." + strings.TrimSpace(key)
			cur = &FuncSpec{Key: full, Pkg: pkg, Loops: map[int]*LoopSpec{}, File: file, Line: rc.line, Asserts: map[string][]Clause{}}
			cur.Params = splitTop(plist, ',')
			cur.Results = splitTop(rlist, ',')
			if _, dup := P.Specs[full]; dup {
				return fmt.Errorf("%s:%d: duplicate contract for %s", file, rc.line, full)
			}
			P.Specs[full] = cur
		default:
			if cur == nil {
				return fmt.Errorf("%s:%d: clause %q outside func", file, rc.line, rc.kw)
			}
			switch rc.kw {
			case "props":
				cur.Props = append(cur.Props, strings.Fields(rc.text)...)
			case "hints":
				cur.Hints = true
			case "opaquemul":
				cur.OpaqueMul = true
			case "locks":
				cur.Locks = true
			case "locked":
				cur.Locked = true
			case "inline":
				cur.Inline = true
			case "trusted":
				cur.Trusted = true
			case "allocs":
				cur.Allocs = true
				items, err := expandModset(pkg, rc.text, 0)
				if err != nil {
					return fmt.Errorf("%s:%d: %v", file, rc.line, err)
				}
				cur.AllocList = append(cur.AllocList, items...)
			case "case":
				c, err := mkClause(rc.text, rc.line)
				if err != nil {
					return err
				}
				cur.Cases = append(cur.Cases, c)
			case "requires", "ensures":
				c, err := mkClause(rc.text, rc.line)
				if err != nil {
					return err
				}
				if rc.kw == "requires" {
					cur.Requires = append(cur.Requires, c)
				} else {
					cur.Ensures = append(cur.Ensures, c)
				}
			case "modifies":
				cur.HasMod = true
				items, err := expandModset(pkg, rc.text, 0)
				if err != nil {
					return fmt.Errorf("%s:%d: %v", file, rc.line, err)
				}
				for _, it := range items {
					if it == "" || it == "nothing" {
						continue
					}
					mi := ModItem{Src: it}
					// Whole-array items start with an upper-case type name or a heap-kind marker and contain no "(" / "["
					first := it
					if k := strings.Index(it, "."); k >= 0 {
						first = it[:k]
					}
					isType := false
					lookPkg, lookName := pkg, first
					if _, isPkg := P.Pkgs[first]; isPkg && first != pkg {
						rest := strings.Split(it, ".")
						if len(rest) >= 2 {
							lookPkg, lookName = first, rest[1]
						}
					}
					if p := P.Pkgs[lookPkg]; p != nil {
						if o := p.Types.Scope().Lookup(lookName); o != nil {
							if _, ok := o.(interface{ IsAlias() bool }); ok {
								isType = true
							}
						}
					}
					if isType || strings.HasPrefix(it, "elems(") || strings.HasPrefix(it, "map(") {
						mi.Whole = it
					} else {
						star := strings.HasSuffix(it, ".*")
						n, err := parseSpec(strings.TrimSuffix(it, ".*"))
						if err != nil {
							return fmt.Errorf("%s:%d: %v", file, rc.line, err)
						}
						mi.Obj = n
						if star {
							mi.Field = "*"
						}
					}
					cur.Modifies = append(cur.Modifies, mi)
				}
			case "loop":
				// loop N invariant E | loop N unroll K | loop N decreases E
				fs := strings.Fields(rc.text)
				if len(fs) < 2 {
					return fmt.Errorf("%s:%d: bad loop clause", file, rc.line)
				}
				n, err := strconv.Atoi(fs[0])
				if err != nil {
					return fmt.Errorf("%s:%d: bad loop ordinal", file, rc.line)
				}
				ls := cur.Loops[n]
				if ls == nil {
					ls = &LoopSpec{}
					cur.Loops[n] = ls
				}
				rest := strings.TrimSpace(strings.TrimPrefix(strings.TrimSpace(rc.text[len(fs[0]):]), fs[1]))
				switch fs[1] {
				case "invariant":
					c, err := mkClause(rest, rc.line)
					if err != nil {
						return err
					}
					ls.Invariants = append(ls.Invariants, c)
				case "unroll":
					k, err := strconv.Atoi(rest)
					if err != nil {
						return fmt.Errorf("%s:%d: bad unroll count", file, rc.line)
					}
					ls.Unroll = k
				case "decreases":
					e, err := parseSpec(rest)
					if err != nil {
						return fmt.Errorf("%s:%d: %v", file, rc.line, err)
					}
					ls.Decreases = e
				default:
					return fmt.Errorf("%s:%d: bad loop clause kind %q", file, rc.line, fs[1])
				}
			case "assert":
				// assert call:<callee>:<n> : expr
				k := strings.Index(rc.text, " ")
				where := rc.text[:k]
				c, err := mkClause(strings.TrimSpace(rc.text[k:]), rc.line)
				if err != nil {
					return err
				}
				cur.Asserts[where] = append(cur.Asserts[where], c)
			}
		}
	}
	return nil
}

func expandModset(pkg, text string, depth int) ([]string, error) {
	if depth > 8 {
		return nil, fmt.Errorf("modset recursion")
	}
	var out []string
	for _, it := range splitTop(text, ',') {
		if it == "" {
			continue
		}
		if strings.HasPrefix(it, "@") {
			ms, ok := modsets[pkg+"."+it[1:]]
			if !ok {
				return nil, fmt.Errorf("unknown modset %s", it)
			}
			sub, err := expandModset(pkg, ms, depth+1)
			if err != nil {
				return nil, err
			}
			out = append(out, sub...)
		} else {
			out = append(out, it)
		}
	}
	return out, nil
}

// Text renders a spec node back to source-like text (used to label split obligations).
func (n *SNode) Text() string {
	if n == nil {
		return ""
	}
	switch n.Op {
	case "ident":
		return n.Name
	case "int":
		return fmt.Sprint(n.Int)
	case "str":
		return strconv.Quote(n.Name)
	case "bool":
		return n.Name
	case "nil":
		return "nil"
	case "sel":
		return n.Args[0].Text() + "." + n.Name
	case "index":
		return n.Args[0].Text() + "[" + n.Args[1].Text() + "]"
	case "un":
		return n.Name + n.Args[0].Text()
	case "bin":
		return "(" + n.Args[0].Text() + " " + n.Name + " " + n.Args[1].Text() + ")"
	case "old":
		return "old(" + n.Args[0].Text() + ")"
	case "call":
		var as []string
		for _, a := range n.Args {
			as = append(as, a.Text())
		}
		return n.Name + "(" + strings.Join(as, ", ") + ")"
	case "forall", "exists":
		var vs []string
		for _, v := range n.Vars {
			vs = append(vs, strings.TrimSpace(v.Name+" "+v.Type))
		}
		return "(" + n.Op + " " + strings.Join(vs, ", ") + " :: " + n.Args[0].Text() + ")"
	}
	return "?"
}

type GuardDef struct {
	Pkg   string
	Mutex string
	Items []string
}
