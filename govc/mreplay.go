package main

// Replay of solver counterexamples on the real code.
//
// When an obligation is refuted (or its quantifier-free relaxation has a model), the pre-state values of everything
// reachable from the function's parameters are read from the model, a Go test is generated that builds that very
// pre-state out of real objects of the package (an in-package test, injected with `go test -overlay`, so unexported
// fields can be set), calls the real function and evaluates the failed contract clause - translated mechanically
// from the specification language to Go - on the real post-state. Only when the real code fails the clause (or
// panics, for a safety obligation) is the counterexample reported as a failing input.
//
// Supported: post / safe obligations of functions whose parameters are scalars, strings, pointers to structs,
// slices and maps with int keys (or string keys that are parameters); clauses over fields, arithmetic, len, in,
// old(), ite/min/max, bounded quantifiers, quantifiers over the objects of a struct type, predicates and recursive
// spec functions. Everything else is reported as not replayable (the violation is still reported, without input).

import (
	"fmt"
	"go/types"
	"sort"
	"strconv"
	"strings"

	"golang.org/x/tools/go/ssa"
)

type notReplayable struct{ why string }

func nr(f string, a ...interface{}) notReplayable { return notReplayable{fmt.Sprintf(f, a...)} }

type rgen struct {
	P       *Program
	pkg     string
	tpkg    *types.Package
	model   map[string]string
	imports map[string]string // path -> name
	// object construction
	objs    map[string]string // typeKey|ref -> base var name (without prefix)
	order   []string          // declaration lines per prefix are produced from these records
	decl    []string          // "T|name" in creation order
	stmts   map[string][]string
	univ    map[string][]string // type string -> object base names
	nobj    int
	strs    map[string]bool
	helpers map[string]bool
	funs    map[string]bool
	funDecl []string
	paramT  map[string]types.Type
}

func (g *rgen) qual(p *types.Package) string {
	if p == g.tpkg {
		return ""
	}
	g.imports[p.Path()] = p.Name()
	return p.Name()
}

func (g *rgen) tstr(t types.Type) string { return types.TypeString(t, g.qual) }

func smtInt(s string) (int64, bool) {
	s = strings.TrimSpace(s)
	neg := false
	if strings.HasPrefix(s, "(-") {
		neg = true
		s = strings.TrimSpace(strings.TrimSuffix(strings.TrimPrefix(s, "(-"), ")"))
	}
	v, err := strconv.ParseInt(s, 10, 64)
	if err != nil {
		return 0, false
	}
	if neg {
		v = -v
	}
	return v, true
}

func (g *rgen) mint(label string) int64 {
	v, _ := smtInt(g.model[label])
	return v
}

func (g *rgen) strLit(code int64) string {
	if code >= 0 && int(code) < len(g.P.StrList) {
		return strconv.Quote(g.P.StrList[code])
	}
	return strconv.Quote(fmt.Sprintf("s#%d", code))
}

// assign emits statements (parametrised by the object-name prefix %P) that give lvalue lv the value the model
// holds under label.
func (g *rgen) assign(lv, label string, t types.Type, depth int, out *[]string) {
	if depth > 7 {
		return
	}
	ct := g.P.concreteOf(t)
	switch u := ct.Underlying().(type) {
	case *types.Basic:
		raw, ok := g.model[label]
		if !ok {
			return
		}
		switch {
		case u.Info()&types.IsBoolean != 0:
			*out = append(*out, fmt.Sprintf("%s = %v", lv, raw == "true"))
		case u.Info()&types.IsString != 0:
			if v, ok := smtInt(raw); ok {
				*out = append(*out, fmt.Sprintf("%s = %s", lv, g.strLit(v)))
			}
		case u.Info()&types.IsInteger != 0:
			if v, ok := smtInt(raw); ok {
				*out = append(*out, fmt.Sprintf("%s = %s(%d)", lv, g.tstr(t), v))
			}
		}
	case *types.Pointer:
		nt, st := namedStruct(ct)
		if nt == nil {
			return
		}
		ref := g.mint(label + "@ref")
		if _, ok := g.model[label+"@ref"]; !ok || ref == 0 {
			return // nil
		}
		key := typeKey(nt) + "|" + strconv.FormatInt(ref, 10)
		name, seen := g.objs[key]
		if !seen {
			g.nobj++
			name = fmt.Sprintf("o%d", g.nobj)
			g.objs[key] = name
			ts := g.tstr(nt)
			g.decl = append(g.decl, ts+"|"+name)
			g.univ[ts] = append(g.univ[ts], name)
			var body []string
			for i := 0; i < st.NumFields(); i++ {
				f := st.Field(i)
				if _, isFn := f.Type().Underlying().(*types.Signature); isFn {
					continue
				}
				if strings.HasPrefix(f.Type().String(), "sync.") {
					continue
				}
				if !f.Exported() && nt.Obj().Pkg() != g.tpkg {
					continue // unexported field of another package: cannot be set from here, stays zero
				}
				g.assign("%P"+name+"."+f.Name(), label+"."+f.Name(), f.Type(), depth+1, &body)
			}
			g.stmts[name] = body
			g.order = append(g.order, name)
		}
		*out = append(*out, fmt.Sprintf("%s = %%P%s", lv, name))
	case *types.Struct:
		for i := 0; i < u.NumFields(); i++ {
			g.assign(lv+"."+u.Field(i).Name(), label+"."+u.Field(i).Name(), u.Field(i).Type(), depth, out)
		}
	case *types.Slice:
		raw, ok := g.model[label+"#len"]
		if !ok {
			return
		}
		n, _ := smtInt(raw)
		if n < 0 {
			n = 0
		}
		if n > 4096 {
			n = 4096 // (only the first elements are read back from the model; the rest stay zero)
		}
		*out = append(*out, fmt.Sprintf("%s = make(%s, %d)", lv, g.tstr(t), n))
		for i := int64(0); i < n && i < 9; i++ {
			g.assign(fmt.Sprintf("%s[%d]", lv, i), fmt.Sprintf("%s[%d]", label, i), u.Elem(), depth+1, out)
		}
	case *types.Map:
		if r, ok := g.model[label+"@ref"]; !ok || r == "0" {
			return
		}
		*out = append(*out, fmt.Sprintf("%s = %s{}", lv, g.tstr(t)))
		for k, v := range g.model {
			if !strings.HasPrefix(k, label+"{") || !strings.HasSuffix(k, "}?") || v != "true" {
				continue
			}
			ks := k[len(label)+1 : len(k)-2]
			if strings.ContainsAny(ks, "{}.[") {
				continue // an entry of a nested map
			}
			var keyLit string
			if kb, ok := u.Key().Underlying().(*types.Basic); ok && kb.Info()&types.IsString != 0 {
				kv, ok := smtInt(g.model[label+"{"+ks+"}key"])
				if !ok {
					continue
				}
				keyLit = g.strLit(kv)
			} else {
				keyLit = ks
			}
			// map values are assigned through a temporary (map elements are not addressable)
			g.nobj++
			tmp := fmt.Sprintf("%%Pm%d", g.nobj)
			*out = append(*out, fmt.Sprintf("var %s %s", tmp, g.tstr(u.Elem())))
			g.assign(tmp, label+"{"+ks+"}", u.Elem(), depth+1, out)
			*out = append(*out, fmt.Sprintf("%s[%s] = %s", lv, keyLit, tmp))
		}
	}
}

// ---------------------------------------------------------------------------------------------
// specification language -> Go
// ---------------------------------------------------------------------------------------------

type tval struct {
	code string
	t    types.Type // nil: untyped constant / unknown
	kind string     // int | bool | str | ref | other
}

type tenv struct {
	vars  map[string]tval // parameters, results, bound variables, predicate parameters
	old   bool
	bound map[string]bool
}

func (e *tenv) clone() *tenv {
	n := &tenv{vars: map[string]tval{}, old: e.old, bound: map[string]bool{}}
	for k, v := range e.vars {
		n.vars[k] = v
	}
	for k := range e.bound {
		n.bound[k] = true
	}
	return n
}

func kindOf(t types.Type) string {
	if t == nil {
		return "int"
	}
	switch u := t.Underlying().(type) {
	case *types.Basic:
		switch {
		case u.Info()&types.IsBoolean != 0:
			return "bool"
		case u.Info()&types.IsString != 0:
			return "str"
		case u.Info()&types.IsInteger != 0:
			return "int"
		}
	case *types.Pointer, *types.Interface, *types.Map:
		return "ref"
	}
	return "other"
}

func (g *rgen) i64(v tval) string {
	if v.t == nil {
		return v.code
	}
	return "int64(" + v.code + ")"
}

func (g *rgen) tx(n *SNode, env *tenv) tval {
	switch n.Op {
	case "int":
		return tval{code: fmt.Sprintf("int64(%d)", n.Int), kind: "int"}
	case "bool":
		return tval{code: n.Name, t: types.Typ[types.Bool], kind: "bool"}
	case "str":
		return tval{code: strconv.Quote(n.Name), t: types.Typ[types.String], kind: "str"}
	case "nil":
		return tval{code: "nil", kind: "ref"}
	case "ident":
		if v, ok := env.vars[n.Name]; ok {
			if env.old && !env.bound[n.Name] && strings.HasPrefix(v.code, "a_") {
				v.code = "b_" + strings.TrimPrefix(v.code, "a_")
			}
			return v
		}
		// package-level constant / error variable
		if o := g.tpkg.Scope().Lookup(n.Name); o != nil {
			switch o.(type) {
			case *types.Const, *types.Var:
				return tval{code: n.Name, t: o.Type(), kind: kindOf(o.Type())}
			}
		}
		panic(nr("name %q is not a parameter, result or package-level constant", n.Name))
	case "old":
		e2 := env.clone()
		e2.old = true
		v := g.tx(n.Args[0], e2)
		if v.kind == "ref" && v.code != "nil" {
			g.helpers["live"] = true
			v.code = "vlive(" + v.code + ")"
			v.t = nil
		}
		return v
	case "sel":
		if id := n.Args[0]; id.Op == "ident" {
			if _, isVar := env.vars[id.Name]; !isVar {
				if p, isPkg := g.P.Pkgs[id.Name]; isPkg {
					if o := p.Types.Scope().Lookup(n.Name); o != nil {
						g.qual(p.Types)
						return tval{code: id.Name + "." + n.Name, t: o.Type(), kind: kindOf(o.Type())}
					}
				}
			}
		}
		x := g.tx(n.Args[0], env)
		if x.t == nil {
			panic(nr("selector .%s on a value of unknown type", n.Name))
		}
		ct := g.P.concreteOf(x.t)
		code := x.code
		if _, isI := x.t.Underlying().(*types.Interface); isI && ct != x.t {
			code = code + ".(" + g.tstr(ct) + ")"
		}
		var st *types.Struct
		if p, ok := ct.Underlying().(*types.Pointer); ok {
			st, _ = p.Elem().Underlying().(*types.Struct)
		} else {
			st, _ = ct.Underlying().(*types.Struct)
		}
		if st == nil {
			panic(nr("selector .%s on %v", n.Name, ct))
		}
		for i := 0; i < st.NumFields(); i++ {
			if st.Field(i).Name() == n.Name {
				ft := st.Field(i).Type()
				return tval{code: code + "." + n.Name, t: ft, kind: kindOf(ft)}
			}
		}
		panic(nr("no field %s", n.Name))
	case "index":
		x := g.tx(n.Args[0], env)
		i := g.tx(n.Args[1], env)
		if x.t == nil {
			panic(nr("index on a value of unknown type"))
		}
		switch u := x.t.Underlying().(type) {
		case *types.Slice:
			return tval{code: x.code + "[int(" + i.code + ")]", t: u.Elem(), kind: kindOf(u.Elem())}
		case *types.Map:
			k := i.code
			if kindOf(u.Key()) == "int" {
				k = g.tstr(u.Key()) + "(" + i.code + ")"
			}
			return tval{code: x.code + "[" + k + "]", t: u.Elem(), kind: kindOf(u.Elem())}
		}
		panic(nr("index on %v", x.t))
	case "un":
		x := g.tx(n.Args[0], env)
		if n.Name == "!" {
			return tval{code: "!(" + x.code + ")", t: types.Typ[types.Bool], kind: "bool"}
		}
		return tval{code: "(-" + g.i64(x) + ")", kind: "int"}
	case "bin":
		return g.txBin(n, env)
	case "forall", "exists":
		return g.txQuant(n, env)
	case "call":
		return g.txCall(n, env)
	}
	panic(nr("construct %q is not translated", n.Op))
}

func (g *rgen) txBin(n *SNode, env *tenv) tval {
	op := n.Name
	tb := types.Typ[types.Bool]
	switch op {
	case "&&", "||":
		a, b := g.tx(n.Args[0], env), g.tx(n.Args[1], env)
		return tval{code: "(" + a.code + " " + op + " " + b.code + ")", t: tb, kind: "bool"}
	case "==>":
		a, b := g.tx(n.Args[0], env), g.tx(n.Args[1], env)
		return tval{code: "(!(" + a.code + ") || " + b.code + ")", t: tb, kind: "bool"}
	case "<==>":
		a, b := g.tx(n.Args[0], env), g.tx(n.Args[1], env)
		return tval{code: "((" + a.code + ") == (" + b.code + "))", t: tb, kind: "bool"}
	}
	a, b := g.tx(n.Args[0], env), g.tx(n.Args[1], env)
	switch op {
	case "+", "-", "*":
		return tval{code: "(" + g.i64(a) + " " + op + " " + g.i64(b) + ")", kind: "int"}
	case "/", "%":
		return tval{code: "(" + g.i64(a) + " " + op + " " + g.i64(b) + ")", kind: "int"}
	case "<", "<=", ">", ">=":
		return tval{code: "(" + g.i64(a) + " " + op + " " + g.i64(b) + ")", t: tb, kind: "bool"}
	case "==", "!=":
		var c string
		switch {
		case a.kind == "int" && b.kind == "int":
			c = "(" + g.i64(a) + " == " + g.i64(b) + ")"
		case a.kind == "ref" || b.kind == "ref" || a.kind == "other" || b.kind == "other":
			if a.kind == "other" || b.kind == "other" {
				if a.t != nil {
					if _, isSl := a.t.Underlying().(*types.Slice); isSl {
						panic(nr("comparison of slice values"))
					}
				}
			}
			g.helpers["same"] = true
			c = "vsame(" + a.code + ", " + b.code + ")"
		default:
			c = "(" + a.code + " == " + b.code + ")"
		}
		if op == "!=" {
			c = "!" + c
		}
		return tval{code: c, t: tb, kind: "bool"}
	}
	panic(nr("operator %s", op))
}

// bounds of an integer variable from the conjuncts of a guard
func conjuncts(n *SNode, out *[]*SNode) {
	if n.Op == "bin" && n.Name == "&&" {
		conjuncts(n.Args[0], out)
		conjuncts(n.Args[1], out)
		return
	}
	*out = append(*out, n)
}

func mentions(n *SNode, name string) bool {
	if n == nil {
		return false
	}
	if n.Op == "ident" && n.Name == name {
		return true
	}
	for _, a := range n.Args {
		if mentions(a, name) {
			return true
		}
	}
	return false
}

func (g *rgen) txQuant(n *SNode, env *tenv) tval {
	isAll := n.Op == "forall"
	body := n.Args[0]
	var guard *SNode
	if isAll && body.Op == "bin" && body.Name == "==>" {
		guard = body.Args[0]
	} else if !isAll {
		guard = body
	}
	e2 := env.clone()
	var loops []string
	var intVars []string
	for _, v := range n.Vars {
		if v.Type != "" && v.Type != "int" {
			t := g.P.parseType(g.pkg, v.Type)
			if kindOf(t) == "str" {
				g.helpers["strs"] = true
				e2.vars[v.Name] = tval{code: "q_" + v.Name, t: t, kind: "str"}
				e2.bound[v.Name] = true
				loops = append(loops, fmt.Sprintf("for _, q_%s := range univStrings", v.Name))
				continue
			}
			nt, _ := namedStruct(t)
			if nt == nil {
				panic(nr("quantifier over %s", v.Type))
			}
			ts := g.tstr(nt)
			e2.vars[v.Name] = tval{code: "q_" + v.Name, t: t, kind: "ref"}
			e2.bound[v.Name] = true
			g.helpers["univ:"+ts] = true
			loops = append(loops, fmt.Sprintf("for _, q_%s := range univ_%s", v.Name, safeIdent(ts)))
			continue
		}
		intVars = append(intVars, v.Name)
		e2.vars[v.Name] = tval{code: "q_" + v.Name, t: types.Typ[types.Int64], kind: "int"}
		e2.bound[v.Name] = true
		loops = append(loops, "@"+v.Name)
	}
	// ranges of the integer variables: any finite superset of the guarded range will do, because the guard itself is
	// evaluated inside the loop. Direct bounds first (from conjuncts lo <= v, v < hi that mention no other
	// quantified variable), then bounds inherited from another quantified variable (v < w, w < hi ==> v < hi).
	if len(intVars) > 0 {
		var cs []*SNode
		if guard != nil {
			conjuncts(guard, &cs)
		}
		isQ := func(x *SNode) string {
			if x.Op == "ident" {
				for _, q := range intVars {
					if q == x.Name {
						return q
					}
				}
			}
			return ""
		}
		free := func(x *SNode) bool {
			for _, q := range intVars {
				if mentions(x, q) {
					return false
				}
			}
			return true
		}
		lo, hi := map[string]string{}, map[string]string{}
		for _, c := range cs {
			if c.Op != "bin" {
				continue
			}
			l, r := c.Args[0], c.Args[1]
			switch c.Name {
			case "<=", "<":
				if q := isQ(r); q != "" && free(l) && lo[q] == "" {
					lo[q] = g.i64(g.tx(l, e2))
				}
				if q := isQ(l); q != "" && free(r) && hi[q] == "" {
					hi[q] = "(" + g.i64(g.tx(r, e2)) + " + 1)"
				}
			case ">=", ">":
				if q := isQ(l); q != "" && free(r) && lo[q] == "" {
					lo[q] = g.i64(g.tx(r, e2))
				}
				if q := isQ(r); q != "" && free(l) && hi[q] == "" {
					hi[q] = "(" + g.i64(g.tx(l, e2)) + " + 1)"
				}
			case "==":
				if q := isQ(l); q != "" && free(r) && lo[q] == "" && hi[q] == "" {
					lo[q] = g.i64(g.tx(r, e2))
					hi[q] = "(" + lo[q] + " + 1)"
				}
			}
		}
		for round := 0; round < len(intVars); round++ {
			for _, c := range cs {
				if c.Op != "bin" || (c.Name != "<" && c.Name != "<=" && c.Name != ">" && c.Name != ">=") {
					continue
				}
				a, b := isQ(c.Args[0]), isQ(c.Args[1])
				if a == "" || b == "" {
					continue
				}
				if c.Name == ">" || c.Name == ">=" {
					a, b = b, a
				}
				// a <= b
				if hi[a] == "" && hi[b] != "" {
					hi[a] = hi[b]
				}
				if lo[b] == "" && lo[a] != "" {
					lo[b] = lo[a]
				}
			}
		}
		for k, l := range loops {
			if !strings.HasPrefix(l, "@") {
				continue
			}
			v := l[1:]
			if lo[v] == "" || hi[v] == "" {
				panic(nr("quantified integer %s has no finite range in the clause", v))
			}
			loops[k] = fmt.Sprintf("for q_%s := %s; q_%s < %s; q_%s++", v, lo[v], v, hi[v], v)
		}
	}
	b := g.tx(body, e2)
	var sb strings.Builder
	sb.WriteString("func() bool { ")
	for _, l := range loops {
		sb.WriteString(l + " { ")
	}
	if isAll {
		sb.WriteString("if !(" + b.code + ") { return false }")
	} else {
		sb.WriteString("if " + b.code + " { return true }")
	}
	for range loops {
		sb.WriteString(" }")
	}
	if isAll {
		sb.WriteString("; return true }()")
	} else {
		sb.WriteString("; return false }()")
	}
	return tval{code: sb.String(), t: types.Typ[types.Bool], kind: "bool"}
}

func safeIdent(s string) string {
	return strings.NewReplacer(".", "_", "*", "P", "[", "_", "]", "_").Replace(s)
}

func (g *rgen) txCall(n *SNode, env *tenv) tval {
	tb := types.Typ[types.Bool]
	switch n.Name {
	case "len":
		x := g.tx(n.Args[0], env)
		return tval{code: "int64(len(" + x.code + "))", kind: "int"}
	case "in":
		k, m := g.tx(n.Args[0], env), g.tx(n.Args[1], env)
		mt, ok := m.t.Underlying().(*types.Map)
		if !ok {
			panic(nr("in(): not a map"))
		}
		kc := k.code
		if kindOf(mt.Key()) == "int" {
			kc = g.tstr(mt.Key()) + "(" + k.code + ")"
		}
		return tval{code: "func() bool { _, ok := " + m.code + "[" + kc + "]; return ok }()", t: tb, kind: "bool"}
	case "ite":
		c, a, b := g.tx(n.Args[0], env), g.tx(n.Args[1], env), g.tx(n.Args[2], env)
		if a.kind == "int" && b.kind == "int" {
			return tval{code: "func() int64 { if " + c.code + " { return " + g.i64(a) + " }; return " + g.i64(b) + " }()", kind: "int"}
		}
		if a.kind == "bool" {
			return tval{code: "func() bool { if " + c.code + " { return " + a.code + " }; return " + b.code + " }()", t: tb, kind: "bool"}
		}
		g.helpers["same"] = true
		return tval{code: "func() interface{} { if " + c.code + " { return " + a.code + " }; return " + b.code + " }()", kind: "ref"}
	case "min", "max":
		a, b := g.tx(n.Args[0], env), g.tx(n.Args[1], env)
		g.helpers["minmax"] = true
		return tval{code: "v" + n.Name + "(" + g.i64(a) + ", " + g.i64(b) + ")", kind: "int"}
	case "umul":
		a, b := g.tx(n.Args[0], env), g.tx(n.Args[1], env)
		return tval{code: "(" + g.i64(a) + " * " + g.i64(b) + ")", kind: "int"}
	case "allocated":
		return tval{code: "true", t: tb, kind: "bool"}
	case "fresh":
		x := g.tx(n.Args[0], env)
		g.helpers["live"] = true
		return tval{code: "vfresh(" + x.code + ")", t: tb, kind: "bool"}
	case "unchanged":
		path := snodePath(n.Args[0])
		parts := strings.Split(path, ".")
		if len(parts) < 2 {
			panic(nr("unchanged(%s)", path))
		}
		tname := parts[0]
		rest := parts[1:]
		if _, isPkg := g.P.Pkgs[parts[0]]; isPkg && len(parts) >= 3 && g.tpkg.Scope().Lookup(parts[0]) == nil {
			tname = parts[0] + "." + parts[1]
			rest = parts[2:]
		}
		t := g.P.parseType(g.pkg, tname)
		nt, _ := namedStruct(t)
		if nt == nil || len(rest) == 0 {
			panic(nr("unchanged(%s)", path))
		}
		ts := g.tstr(nt)
		g.helpers["univ:"+ts] = true
		g.helpers["pairs:"+ts] = true
		g.helpers["deep"] = true
		f := strings.Join(rest, ".")
		return tval{code: fmt.Sprintf("func() bool { for i, o := range univ_%s { if !reflect.DeepEqual(o.%s, old_%s[i].%s) { return false } }; return true }()", safeIdent(ts), f, safeIdent(ts), f), t: tb, kind: "bool"}
	}
	// predicate
	pd := g.P.Preds[g.pkg+"."+n.Name]
	if pd == nil && strings.Contains(n.Name, ".") {
		pd = g.P.Preds[n.Name]
	}
	if pd != nil {
		if len(pd.Params) != len(n.Args) {
			panic(nr("predicate %s arity", n.Name))
		}
		e2 := env.clone()
		for i, p := range pd.Params {
			v := g.tx(n.Args[i], env)
			e2.vars[p] = v
			e2.bound[p] = true // already evaluated in the right state
		}
		saved := g.pkg
		g.pkg = pd.Pkg
		defer func() { g.pkg = saved }()
		return g.tx(pd.Body, e2)
	}
	// recursive spec function -> a Go function over the object graph
	fd := g.P.Funs[g.pkg+"."+n.Name]
	if fd != nil {
		if !g.funs[fd.Name] {
			g.funs[fd.Name] = true
			e2 := &tenv{vars: map[string]tval{}, bound: map[string]bool{}}
			var ps []string
			for _, p := range fd.Params {
				t := g.P.parseType(fd.Pkg, p.Type)
				gt := g.tstr(t)
				if kindOf(t) == "int" {
					gt = "int64"
					t = types.Typ[types.Int64]
				}
				ps = append(ps, "f_"+p.Name+" "+gt)
				e2.vars[p.Name] = tval{code: "f_" + p.Name, t: t, kind: kindOf(t)}
				e2.bound[p.Name] = true
			}
			body := g.tx(fd.Body, e2)
			g.funDecl = append(g.funDecl, fmt.Sprintf("func sf_%s(%s) int64 { return %s }", fd.Name, strings.Join(ps, ", "), g.i64(body)))
		}
		var as []string
		for i, a := range n.Args {
			v := g.tx(a, env)
			if kindOf(g.P.parseType(fd.Pkg, fd.Params[i].Type)) == "int" {
				as = append(as, g.i64(v))
			} else {
				as = append(as, v.code)
			}
		}
		return tval{code: "sf_" + fd.Name + "(" + strings.Join(as, ", ") + ")", kind: "int"}
	}
	panic(nr("call %s is not translated", n.Name))
}

// ---------------------------------------------------------------------------------------------
// test generation
// ---------------------------------------------------------------------------------------------

// genReplayTest returns the source of an in-package test that rebuilds the model's pre-state, calls the function and
// evaluates the obligation on the real post-state.
func (P *Program) genReplayTest(key string, o *Obl, model map[string]string) (src string, pkgDir string, err error) {
	defer func() {
		if r := recover(); r != nil {
			if x, ok := r.(notReplayable); ok {
				err = fmt.Errorf("%s", x.why)
				return
			}
			if x, ok := r.(SpecError); ok {
				err = fmt.Errorf("%v", x)
				return
			}
			err = fmt.Errorf("generator: %v", r)
		}
	}()
	fn := P.Funcs[key]
	spec := P.Specs[key]
	if fn == nil || spec == nil {
		return "", "", fmt.Errorf("no function/contract")
	}
	if fn.Parent() != nil || strings.Contains(key, "callback.") {
		return "", "", fmt.Errorf("not a top-level function")
	}
	// which clause?
	kind := o.Kind
	var clause *SNode
	var clauseSrc string
	base := strings.SplitN(o.Name, "#", 2)
	if len(base) != 2 {
		return "", "", fmt.Errorf("obligation name")
	}
	tail := base[1]
	switch {
	case strings.HasPrefix(tail, "post:"):
		num := strings.SplitN(strings.TrimPrefix(tail, "post:"), "/", 2)[0]
		k, e := strconv.Atoi(num)
		if e != nil || k < 1 || k > len(spec.Ensures) {
			return "", "", fmt.Errorf("clause number")
		}
		clause = spec.Ensures[k-1].Expr
		clauseSrc = spec.Ensures[k-1].Src
	case strings.HasPrefix(tail, "safe:"):
		kind = "safe"
	default:
		return "", "", fmt.Errorf("obligations of kind %q are not replayed (only postconditions and safety obligations)", o.Kind)
	}
	pkgName := fn.Pkg.Pkg.Name()
	g := &rgen{P: P, pkg: pkgName, tpkg: fn.Pkg.Pkg, model: model, imports: map[string]string{}, objs: map[string]string{}, stmts: map[string][]string{},
		univ: map[string][]string{}, strs: map[string]bool{}, helpers: map[string]bool{}, funs: map[string]bool{}, paramT: map[string]types.Type{}}
	// parameters (receiver first), named as in the contract
	var params []*ssa.Parameter
	params = append(params, fn.Params...)
	if len(spec.Params) != len(params) {
		return "", "", fmt.Errorf("parameter count")
	}
	env := &tenv{vars: map[string]tval{}, bound: map[string]bool{}}
	var top []string
	var decls []string
	for i, p := range params {
		name := spec.Params[i]
		gt := g.tstr(p.Type())
		decls = append(decls, fmt.Sprintf("var %%Pp_%s %s", name, gt))
		g.assign("%Pp_"+name, name, p.Type(), 0, &top)
		env.vars[name] = tval{code: "a_p_" + name, t: p.Type(), kind: kindOf(p.Type())}
	}
	// results
	res := fn.Signature.Results()
	var rdecl, rnames []string
	for i := 0; i < res.Len(); i++ {
		rn := fmt.Sprintf("r%d", i)
		rdecl = append(rdecl, fmt.Sprintf("var %s %s", rn, g.tstr(res.At(i).Type())))
		rnames = append(rnames, rn)
		if i < len(spec.Results) {
			env.vars[spec.Results[i]] = tval{code: rn, t: res.At(i).Type(), kind: kindOf(res.At(i).Type())}
			env.bound[spec.Results[i]] = true
		}
	}
	if res.Len() == 1 {
		env.vars["result"] = tval{code: "r0", t: res.At(0).Type(), kind: kindOf(res.At(0).Type())}
		env.bound["result"] = true
	}
	// clause and preconditions
	check := "true"
	if clause != nil {
		check = g.tx(clause, env).code
	}
	var pres, skipped []string
	for _, rq := range spec.Requires {
		func() {
			defer func() {
				if r := recover(); r != nil {
					if x, ok := r.(notReplayable); ok {
						skipped = append(skipped, rq.Src+"  ["+x.why+"]")
						return // an untranslatable precondition is simply not checked
					}
					if x, ok := r.(SpecError); ok {
						skipped = append(skipped, rq.Src+"  ["+fmt.Sprint(x)+"]")
						return
					}
					panic(r)
				}
			}()
			pres = append(pres, g.tx(rq.Expr, env).code)
		}()
	}
	// emit
	var sb strings.Builder
	w := func(f string, a ...interface{}) { fmt.Fprintf(&sb, f+"\n", a...) }
	inst := func(lines []string, prefix string) {
		for _, l := range lines {
			w("\t%s", strings.ReplaceAll(l, "%P", prefix))
		}
	}
	var body strings.Builder
	wb := func(f string, a ...interface{}) { fmt.Fprintf(&body, f+"\n", a...) }
	_ = wb
	w("package %s", pkgName)
	w("")
	w("// generated by govc: replay of the solver's counterexample for obligation %s", o.Name)
	if clauseSrc != "" {
		w("// clause: %s", strings.ReplaceAll(clauseSrc, "\n", " "))
	}
	w("")
	imports := []string{"fmt", "runtime/debug", "strings", "testing"}
	imports = append(imports, "reflect")
	w("import (")
	for _, i := range imports {
		w("\t%q", i)
	}
	var ips []string
	for p := range g.imports {
		ips = append(ips, p)
	}
	sort.Strings(ips)
	for _, p := range ips {
		w("\t%q", p)
	}
	w(")")
	w("")
	for _, p := range ips {
		w("var _ = %s.%s", g.imports[p], firstExported(P, p))
	}
	// package-level state of the generated test
	for _, prefix := range []string{"a_", "b_"} {
		for _, d := range g.decl {
			tn := strings.SplitN(d, "|", 2)
			w("var %s%s = &%s{}", prefix, tn[1], tn[0])
		}
		for _, d := range decls {
			w("%s", strings.ReplaceAll(d, "%P", prefix))
		}
	}
	var tns []string
	for ts := range g.univ {
		tns = append(tns, ts)
	}
	sort.Strings(tns)
	for _, ts := range tns {
		var as, bs []string
		for _, n := range g.univ[ts] {
			as = append(as, "a_"+n)
			bs = append(bs, "b_"+n)
		}
		w("var univ_%s = []*%s{%s}", safeIdent(ts), ts, strings.Join(as, ", "))
		w("var old_%s = []*%s{%s}", safeIdent(ts), ts, strings.Join(bs, ", "))
	}
	for h := range g.helpers {
		if strings.HasPrefix(h, "univ:") {
			ts := strings.TrimPrefix(h, "univ:")
			if _, ok := g.univ[ts]; !ok {
				w("var univ_%s = []*%s{}", safeIdent(ts), ts)
				w("var old_%s = []*%s{}", safeIdent(ts), ts)
			}
		}
	}
	if g.helpers["strs"] {
		seen := map[string]bool{}
		var lits []string
		for i, s := range P.StrList {
			_ = i
			if !seen[s] {
				seen[s] = true
				lits = append(lits, strconv.Quote(s))
			}
		}
		w("var univStrings = []string{%s}", strings.Join(lits, ", "))
	}
	w("var liveOf = map[interface{}]interface{}{}")
	w("var preExisting = map[interface{}]bool{}")
	w("")
	w("func vnil(x interface{}) bool {")
	w("\tif x == nil { return true }")
	w("\tv := reflect.ValueOf(x)")
	w("\tswitch v.Kind() { case reflect.Ptr, reflect.Map, reflect.Slice, reflect.Interface, reflect.Func: return v.IsNil() }")
	w("\treturn false")
	w("}")
	w("func vsame(a, b interface{}) bool { if vnil(a) || vnil(b) { return vnil(a) && vnil(b) }; return a == b }")
	w("func vlive(x interface{}) interface{} { if vnil(x) { return nil }; if l, ok := liveOf[x]; ok { return l }; return x }")
	w("func vfresh(x interface{}) bool { return !vnil(x) && !preExisting[x] }")
	w("func vmin(a, b int64) int64 { if a < b { return a }; return b }")
	w("func vmax(a, b int64) int64 { if a > b { return a }; return b }")
	w("var _ = reflect.DeepEqual")
	w("var _ = strings.Contains")
	w("func firstFrames(s string) string { ls := strings.Split(s, \"\\n\"); var out []string; for _, l := range ls { if strings.Contains(l, \".go:\") && !strings.Contains(l, \"runtime/\") && !strings.Contains(l, \"zz_verif_model\") { out = append(out, strings.TrimSpace(l)) } }; if len(out) > 3 { out = out[:3] }; return strings.Join(out, \" <- \") }")
	for _, fd := range g.funDecl {
		w("%s", fd)
	}
	w("")
	for _, sk := range skipped {
		w("// precondition not checked on the rebuilt objects (not translated): %s", strings.ReplaceAll(sk, "\n", " "))
	}
	w("func TestVerifModelReplay(t *testing.T) {")
	for _, prefix := range []string{"a_", "b_"} {
		for _, name := range g.order {
			inst(g.stmts[name], prefix)
		}
		inst(top, prefix)
	}
	for _, d := range g.decl {
		tn := strings.SplitN(d, "|", 2)
		w("\tliveOf[b_%s] = a_%s; preExisting[a_%s] = true", tn[1], tn[1], tn[1])
	}
	for _, r := range rdecl {
		w("\t%s", r)
	}
	for _, r := range rnames {
		w("\t_ = %s", r)
	}
	// preconditions
	w("\tpreOK, preErr := func() (ok bool, e interface{}) { defer func() { e = recover() }(); return %s, nil }()", strings.Join(append([]string{"true"}, pres...), " && "))
	w("\tif preErr != nil || !preOK { fmt.Println(\"VERIF-REPLAY spurious-prestate: the pre-state read from the model does not satisfy the precondition on the real objects\", preErr); return }")
	// call
	var args []string
	recv := ""
	for i := range params {
		v := "a_p_" + spec.Params[i]
		if i == 0 && fn.Signature.Recv() != nil {
			recv = v
			continue
		}
		args = append(args, v)
	}
	call := fn.Name() + "(" + strings.Join(args, ", ") + ")"
	if recv != "" {
		call = recv + "." + call
	}
	if len(rnames) > 0 {
		call = strings.Join(rnames, ", ") + " = " + call
	}
	w("\tvar stack string")
	w("\tpanicked := func() (p interface{}) { defer func() { if p = recover(); p != nil { stack = string(debug.Stack()) } }(); %s; return nil }()", call)
	if kind == "safe" {
		// a panic counts only when it is raised at the very source position of the safety obligation
		w("\tif panicked != nil && strings.Contains(stack, %q) { fmt.Println(\"VERIF-REPLAY property-violated: the real function panics at %s on this input:\", panicked); t.Fail(); return }", o.Pos, o.Pos)
		w("\tif panicked != nil { fmt.Println(\"VERIF-REPLAY not-replayable: the real function panics elsewhere on the reconstructed input (reconstruction incomplete):\", panicked, firstFrames(stack)); return }")
		w("\tfmt.Println(\"VERIF-REPLAY passes: the real function does not panic on this input\")")
	} else {
		w("\tif panicked != nil { fmt.Println(\"VERIF-REPLAY not-replayable: the real function panics on the reconstructed input (reconstruction incomplete):\", panicked, firstFrames(stack)); return }")
		w("\tok, evalErr := func() (ok bool, e interface{}) { defer func() { e = recover() }(); return %s, nil }()", check)
		w("\tif evalErr != nil { fmt.Println(\"VERIF-REPLAY not-replayable: the clause cannot be evaluated on the real post-state:\", evalErr); return }")
		w("\tif !ok { fmt.Println(\"VERIF-REPLAY property-violated: the clause is false on the real post-state\"); t.Fail(); return }")
		w("\tfmt.Println(\"VERIF-REPLAY passes: the clause holds on the real post-state for this input\")")
	}
	w("}")
	rel := strings.TrimPrefix(strings.TrimPrefix(fn.Pkg.Pkg.Path(), modPath), "/")
	if rel == "" {
		rel = "."
	}
	return sb.String(), rel, nil
}

func firstExported(P *Program, path string) string {
	for _, p := range P.Pkgs {
		if p.PkgPath == path {
			names := p.Types.Scope().Names()
			for _, n := range names {
				o := p.Types.Scope().Lookup(n)
				if o.Exported() {
					if _, ok := o.(*types.Func); ok {
						return n
					}
				}
			}
			for _, n := range names {
				o := p.Types.Scope().Lookup(n)
				if _, ok := o.(*types.Var); ok && o.Exported() {
					return n
				}
			}
		}
	}
	return "X"
}
