#!/bin/sh
# must-fail corpus (every seeded change must be reported by the check of its own property) and harmless corpus
# (no VIOLATION line may appear). usage: selftest.sh [seeded|benign|all]
what=${1:-all}; bad=0
if [ "$what" != benign ]; then
  for d in /verif/seeded/*/; do n=$(basename $d); p=$(python3 -c "import json;print(json.load(open('$d/meta.json'))['property'])")
    out=$(/verif/tools/seedtest.sh $n $p 2>&1 | grep "^SEEDTEST"); echo "$out"
    case "$out" in *"violations=0"*) echo "  MISSED $n"; bad=1;; esac
  done
fi
if [ "$what" != seeded ]; then
  for d in /verif/benign/*/; do n=$(basename $d); p=$(python3 -c "
import json
m={'player.go':'C12','game.go':'C14','pot/level_list.go':'C16','settlement/settlement.go':'C02','combination/power.go':'C03','seat_manager/seat_manager.go':'C18','regulator/regulator.go':'C19'}
print(m.get(json.load(open('$d/meta.json'))['file'],'C06'))")
    out=$(PATCHDIR=/verif/benign /verif/tools/patchtest.sh $n $p 2>&1 | grep "^SEEDTEST"); echo "$out"
    case "$out" in *"violations=0"*) ;; *) echo "  FALSE ALARM $n"; bad=1;; esac
  done
fi
exit $bad
