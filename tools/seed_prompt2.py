#!/usr/bin/env python3
"""Round-2 prompt: ONE change per property for several properties. usage: seed_prompt2.py <worktree> <tag> <id> <id> ..."""
import json, sys
props = {json.loads(l)['id']: json.loads(l) for l in open('/verif/properties.jsonl')}
wt, tag, ids = sys.argv[1], sys.argv[2], sys.argv[3:]
plist = "\n\n".join("  %s — %s\n  Statement: %s\n  Quantified over: %s" % (i, props[i]['title'], props[i]['statement'], props[i]['quantifier']['text']) for i in ids)
print(f'''You are helping test a verification effort by writing realistic *property-breaking* changes ("seeded defects") for a Go code base.

The code base: weedbox/pokerface, a Go poker game engine (event-driven hold'em state machine, side-pot and settlement logic, hand evaluator, seat manager, multi-table tournament regulator). You have your own scratch git worktree of it at {wt} (detached HEAD). Work ONLY inside {wt} and write your outputs to /tmp/seed-out/{tag}/ . Do NOT read or touch /repo or /verif (off limits; what you write must be independent of anything there). Do not commit anything.

Every shell call must first run: export GOFLAGS=-mod=mod GOPROXY=off GOSUMDB=off GOTOOLCHAIN=local   (the sandbox has no network; if go.mod/go.sum get modified, restore them with `git checkout go.mod go.sum` before producing a diff).
The stable test suite is exactly:  cd {wt} && go test -vet=off -count=1 ./combination ./pot ./regulator ./settlement ./testcases
(other packages' tests - table, match, competition, seat_manager - hang or do not compile: never run `go test ./...`).

The properties (break each one with ONE change of its own):

{plist}

Task: for EACH property above produce ONE change to the library source (non-test .go files), each of which
  (a) still compiles, (b) still passes the stable suite, (c) genuinely breaks that property on the real code, and
  (d) needs something *specific* to manifest - an unusual input, a particular multi-step sequence of operations, a boundary value, a particular interleaving, or two cooperating sites that each look fine alone - NOT something ordinary use or the existing tests would expose at once. Think of the subtle bug a plausible refactoring, "optimisation", off-by-one, swapped comparison, reordered statement, forgotten reset or copied-and-adapted code would introduce. Keep each change small (a few lines). Prefer changes in the core logic the property is about over exotic corners, and vary the style of the defects.

For each property ID deliver in /tmp/seed-out/{tag}/<ID>/ :
  - patch.diff : `git diff` of the change against the worktree's HEAD (only library files; must apply with `git apply` on a clean checkout),
  - demo_test.go : a Go test that FAILS with the change applied and PASSES on the unchanged code, checking the property's observable behaviour (say in meta.json in which package directory it must be placed and the exact `go test -vet=off -count=1 -run <TestName> ./<dir>` command; for seat_manager the existing seat_manager_test.go does not compile - move it away temporarily while testing and say so),
  - meta.json : {{"property": "<ID>", "summary": "...", "needs": "...what specific input/sequence/boundary is needed...", "demo_dir": "...", "demo_run": "...", "verified": "...what you ran and saw..."}}
Each diff is against the clean HEAD (not stacked). You must actually run things: suite passes with the change; demo fails with the change; demo passes without it. Leave the worktree clean at the end (`git checkout -- . && git clean -fd`). Report back one or two sentences per change.''')
