#!/usr/bin/env python3
"""Prints the prompt given to a fresh sub-agent asked to seed a property-breaking change.
usage: seed_prompt.py <property id> <worktree path>   (only the property text and the worktree are given to the agent)"""
import json, sys
props = {json.loads(l)['id']: json.loads(l) for l in open('/verif/properties.jsonl')}
T = '''You are helping test a verification effort by writing realistic *property-breaking* changes ("seeded defects") for a Go code base.

The code base: weedbox/pokerface, a Go poker game engine (event-driven hold'em state machine, side-pot and settlement logic, hand evaluator, seat manager, multi-table tournament regulator). You have your own scratch git worktree of it at @WT@ (detached HEAD at the pinned commit). Work ONLY inside @WT@ and write your outputs to /tmp/seed-out/@ID@/ . Do NOT read or touch /repo or /verif (they are off limits; what you write must be independent of anything there). Do not commit anything.

The property you must break:

  @ID@ — @TITLE@
  Statement: @STATEMENT@
  Quantified over: @QUANT@

Task: produce TWO different changes to the library source (non-test .go files) in @WT@, each of which
  (a) still compiles,
  (b) still passes the existing stable test suite, which is exactly:
        cd @WT@ && go test -vet=off -count=1 ./combination ./pot ./regulator ./settlement ./testcases
      (run it plain like that — it works offline; do NOT set GOFLAGS=-mod=mod; if go.mod/go.sum get modified, restore them with `git checkout go.mod go.sum`; other packages' tests (table, match, competition, seat_manager) hang or do not compile — never run `go test ./...`),
  (c) genuinely breaks the property above on the real code, and
  (d) needs something *specific* to manifest — an unusual input, a particular multi-step sequence of operations, a boundary value, a particular interleaving, or two cooperating sites that each look fine alone — NOT something ordinary use or the existing tests would expose at once. Think of the kind of subtle bug a plausible refactoring or "optimisation" would introduce. Keep each change small (a few lines).

For each change k in {1,2} deliver in /tmp/seed-out/@ID@/m<k>/ :
  - patch.diff : `git diff` of the change against the pinned HEAD (only library files; apply-able with `git apply` at the repo root),
  - a demonstration: a Go test file (name it demo_test.go and say in meta.json in which package directory it must be placed, e.g. "." or "pot" or "seat_manager"; it must be in that directory's package or its _test package and run with `go test -vet=off -count=1 -run <TestName> ./<dir>`) that FAILS with the change applied and PASSES on the unchanged code. The demonstration should check the property's observable behaviour, not implementation details. (Note for seat_manager: the existing seat_manager/seat_manager_test.go does not compile — if you need a test in that directory, say in meta.json that the existing test file must be moved away first, and do that yourself temporarily while testing.)
  - meta.json : {"property": "@ID@", "summary": "...what the change does...", "needs": "...what specific input/sequence/boundary is needed for it to manifest...", "demo_dir": "...", "demo_run": "...exact go test command...", "verified": "...what you ran and saw: suite passes with change; demo fails with change; demo passes without..."}

You must actually run things and confirm (b), and that the demo fails with the change and passes without it (use `git stash` or `git apply -R` to switch; leave the worktree clean — `git checkout -- . && git clean -fd` — at the end). The two changes should be independent alternatives (each diff is against the pinned HEAD, not stacked). If the unchanged code already violates the property for some inputs, make sure your demo passes on the unchanged code (i.e. your change must break something that currently works).

Report back briefly: for each change one or two sentences, and confirm the files are in place.'''
id, wt = sys.argv[1], sys.argv[2]
p = props[id]
print(T.replace('@ID@', id).replace('@WT@', wt).replace('@TITLE@', p['title']).replace('@STATEMENT@', p['statement']).replace('@QUANT@', p['quantifier']['text']))
