#!/bin/sh
# usage: patchdebug.sh <patch file> <prop>  — applies the patch to a scratch worktree and runs the check, keeping the replay files in /tmp/pdbg
export GOFLAGS=-mod=mod GOPROXY=off GOSUMDB=off GOTOOLCHAIN=local
wt=$(mktemp -d /tmp/seedwt-XXXXXX); vd=/tmp/pdbg; rm -rf $vd; mkdir -p $vd
git -C /repo worktree add --detach "$wt" HEAD -q -f >/dev/null 2>&1 || { rmdir "$wt"; git -C /repo worktree add --detach "$wt" HEAD -q; }
cp /verif/known_findings.json /verif/bounded.json "$vd/"; ln -s /verif/replay "$vd/replay"
git -C "$wt" apply "$1" || echo PATCH-FAILED
/verif/bin/govc check --repo "$wt" --verif "$vd" -q "$2" 2>&1 | grep -v "^WARNING" | cut -c1-400
git -C /repo worktree remove --force "$wt"
