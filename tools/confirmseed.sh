#!/bin/sh
# usage: confirmseed.sh <dir with patch.diff demo_test.go meta.json> <scratch worktree>
# Confirms a seeded change: the patch applies, the stable suite passes with it, the demonstration fails with it and
# passes without it. Prints one CONFIRM line.
export GOFLAGS=-mod=mod GOPROXY=off GOSUMDB=off GOTOOLCHAIN=local
d="$1"; wt="$2"
cd "$wt" || exit 2
git checkout -q -- . ; git clean -qfd
dir=$(python3 -c "import json;print(json.load(open('$d/meta.json'))['demo_dir'])")
tn=$(grep -o "^func Test[A-Za-z0-9_]*" "$d/demo_test.go" | sed 's/func //' | paste -sd'|')
run() { [ "$dir" = seat_manager ] && mv seat_manager/seat_manager_test.go /tmp/smt.$$ 2>/dev/null
  cp "$d/demo_test.go" "$dir/zz_seed_demo_test.go"
  go test -vet=off -count=1 -timeout 120s -run "^($tn)\$" ./$dir >/tmp/confirm.$$.log 2>&1; rc=$?
  rm -f "$dir/zz_seed_demo_test.go"; [ -f /tmp/smt.$$ ] && mv /tmp/smt.$$ seat_manager/seat_manager_test.go
  return $rc; }
run; clean=$?
git apply "$d/patch.diff" || { echo "CONFIRM $d PATCH-FAILED"; exit 1; }
go build ./... >/dev/null 2>&1; build=$?
go test -vet=off -count=1 ./combination ./pot ./regulator ./settlement ./testcases >/tmp/confirm.$$.suite 2>&1; suite=$?
run; mut=$?
git checkout -q -- . ; git clean -qfd; git checkout -q go.mod go.sum 2>/dev/null
echo "CONFIRM $d demo_clean_rc=$clean build_rc=$build suite_rc=$suite demo_patched_rc=$mut"
rm -f /tmp/confirm.$$.*
