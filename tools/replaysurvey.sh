#!/bin/sh
# for every seeded patch: run its property's check on a scratch worktree and print the replay verdict of every obligation violation
for d in /verif/seeded/*/; do n=$(basename $d); p=$(python3 -c "import json;print(json.load(open('$d/meta.json'))['property'])")
  /verif/tools/patchdebug.sh $d/patch.diff $p > /tmp/pdbg.out 2>&1
  python3 - "$n" "$p" <<'PY'
import json,glob,sys
n,p=sys.argv[1:3]
for f in sorted(glob.glob('/tmp/pdbg/replays/*.json')):
    d=json.load(open(f)); r=d.get('replay')
    if d.get('kind')=='bounded-stand-in': print(n,p,'BOUNDED',d.get('message','')[:100]); continue
    print(n,p,d['obligation'],d['status'],(r or {}).get('verdict'),((r or {}).get('output') or '')[:160].replace('\n',' '))
PY
done
