#!/usr/bin/env python3
"""Regenerates /verif/MANIFEST.json from the table below (kept valid at all times)."""
import json, subprocess
props = [json.loads(l) for l in open('/verif/properties.jsonl')]
ids = [p['id'] for p in props]

# property id -> (level category, level text, level note, technique, design ref)
CLAIMED = {
 'C11': ('proof',
   "Contract-based deductive proof on the real code: GetAvailableActions/SetCurrentPlayer carry the offered-action table of the statement (predicate OFFER) as postcondition, and every action method (Pass/Fold/Check/Call/Bet/Allin, and Raise via C12) carries 'accepted check/fold/pass moves no chips', 'call levels the caller', 'bet x makes x the wager to match', 'all-in commits the stack' as postconditions, for all pre-states satisfying the round invariant ROUNDINV and all int64 amounts. VCs are generated from go/ssa of /repo's working tree on every run and discharged by z3/cvc5.",
   "Trusted: govc's SSA->SMT translation (A1), induction over histories (A2: ROUNDINV is pre+post of every action; establishment by Start/PayBlinds is part of C06/C13's closure), solvers (A3), mathematical integers (A4), unique interface implementers (checked). pot/settlement/hand-evaluation callees enter through assumed frame-only contracts (listed in evidence.trusted_base). Known finding F-BET-NEGATIVE (Bet(x<0)) lies on the closure: its residual (x>=0) is discharged.",
   "contract-based deductive verification (govc: VCs from go/ssa + //@ contracts, z3/cvc5)", "DESIGN.md section 8 C11"),
 'C12': ('proof',
   "Contract-based deductive proof on the real code: postconditions of Raise/Allin/Bet/Call/pay state the minimum-raise rule literally (a full raise below the stack is carried out exactly incl. raiser and new increment; an undersized request ends all-in or refused; a request below the wager is refused with the state unchanged; the wager to match and the minimum raise never go down within a round) and the chip invariant CHIP for every int64 amount. Bet's call-site precondition chips>=0 of pay is the one obligation that fails: recorded as known finding F-BET-NEGATIVE with the residual (chips>=0) discharged and a canary that the finding still reproduces.",
   "Trusted: A1-A4 as for C11; pot/settlement callees by assumed frame-only contracts; pot-limit branch of Raise is covered only by the safety/chip clauses (the exact-raise clause is stated for no-limit as in the property).",
   "contract-based deductive verification (govc: VCs from go/ssa + //@ contracts, z3/cvc5)", "DESIGN.md section 8 C12"),
 'C15': ('proof',
   "Contract-based deductive proof on the real code: AsPlayer/AsObserver have the statement as postcondition (deck and burned cards empty; every hidden seat has no hole cards and a nil evaluation; every visible seat's cards and evaluation are unchanged) with loop invariants for both loops, and a modifies clause limited to Meta.Deck, Status.Burned, Players[*].HoleCards/Combination whose frame obligations prove every other field untouched; for every state and every viewer index.",
   "Trusted: A1, A3, A4. The claim covers the two view functions; a future field that copies cards elsewhere would not be noticed unless it is written inside the verified functions.",
   "contract-based deductive verification (govc: VCs from go/ssa + //@ contracts, z3/cvc5)", "DESIGN.md section 8 C15"),
}
NA_REASON = "not yet claimed: contracts for the functions this property depends on are still being written (DESIGN.md section 9 staging); no check is registered so nothing is asserted about it"
NA = {}

def hooks_commits():
    out = subprocess.run(['git','-C','/repo','log','--format=%H %s','649d9ca..HEAD'],capture_output=True,text=True).stdout.strip().split('\n')
    return [l.split()[0] for l in out if l and 'verif hooks' in l]

checks = []
for i in ids:
    if i in CLAIMED:
        cat, text, note, tech, ref = CLAIMED[i]
        checks.append({"property_id": i, "quick_cmd": f"/verif/bin/check {i} --tier quick", "thorough_cmd": f"/verif/bin/check {i} --tier thorough",
            "evidence_file": f"/verif/evidence/{i}.json", "replay_cmd_template": "/verif/bin/replay {path}", "engine": "govc",
            "level_claimed": {"category": cat, "text": text, "design_ref": ref}, "level_note": note, "technique": tech})
m = {"version": 1,
 "setup_cmd": "cd /verif/govc && GOFLAGS=-mod=mod GOPROXY=off GOSUMDB=off GOTOOLCHAIN=local go build -o /verif/bin/govc .",
 "hooks": {"guard": "verif", "enable": "contract files /repo/<pkg>/zz_contracts_verif.go are comment-only and guarded by //go:build verif; govc loads /repo with -tags=verif",
           "baseline_off_cmd": "cd /repo && go test -vet=off -count=1 ./combination ./pot ./regulator ./settlement ./testcases",
           "source_commits": hooks_commits(), "add_only": True},
 "engines": [{"name": "govc", "path": "/verif/govc", "serves_properties": sorted(CLAIMED),
              "kind_free_text": "VC generator over go/ssa of /repo's working tree + Gobra-style //@ contracts kept in guarded comment-only files in /repo; weakest-precondition style passive encoding, loops cut by invariants, callees by contract, obligations discharged by racing z3 4.8.12 / z3 5.1.0 / cvc5 1.0.3"}],
 "checks": checks,
 "notes": "Known findings (genuine defects of the pinned tree) are listed in /verif/known_findings.json; seeded property-breaking changes used to test the checks are in /verif/seeded.",
 "not_applicable": [{"property_id": i, "reason": NA.get(i, NA_REASON)} for i in ids if i not in CLAIMED]}
json.dump(m, open('/verif/MANIFEST.json','w'), indent=1)
print("claimed:", sorted(CLAIMED))
