#!/bin/sh
# usage: seedtest.sh <seeded dir name> <property id>...
# Applies /verif/seeded/<name>/patch.diff to a scratch worktree of /repo (HEAD, i.e. with the committed contract
# files), runs the given property checks against it, prints the verdict lines and removes the worktree.
export GOFLAGS=-mod=mod GOPROXY=off GOSUMDB=off GOTOOLCHAIN=local
name="$1"; shift; pdir=${PATCHDIR:-/verif/seeded}
wt=$(mktemp -d /tmp/seedwt-XXXXXX); vd=$(mktemp -d /tmp/seedvd-XXXXXX)
git -C /repo worktree add --detach "$wt" HEAD -q -f >/dev/null 2>&1 || { rmdir "$wt"; git -C /repo worktree add --detach "$wt" HEAD -q; }
cp /verif/known_findings.json /verif/bounded.json "$vd/"; ln -s /verif/replay "$vd/replay"
if ! git -C "$wt" apply $pdir/$name/patch.diff; then echo "PATCH-FAILED $name"; fi
for p in "$@"; do
  out=$(/verif/bin/govc check --repo "$wt" --verif "$vd" -q "$p" 2>&1 | grep -v "^WARNING")
  code=$?
  nviol=$(echo "$out" | grep -c "^VIOLATION")
  nund=$(echo "$out" | grep -c "^UNDECIDED")
  echo "SEEDTEST $name $p violations=$nviol undecided=$nund"
  echo "$out" | grep "^VIOLATION\|^UNDECIDED" | head -4 | cut -c1-300
done
git -C /repo worktree remove --force "$wt"; rm -rf "$vd"
